"""C19 — fast-path response parsing agrees with full JSON parsing.

Documents are generated as *tagged* values (None / bool / {"n": literal} / str / list / {"o": [[k, v], ...]}),
rendered to text BY THE LEAN DRIVER (explicit key order, whitespace style, escaping); exactly that text is fed to
the real fast paths (runner.parse, BulkIndex.simple_stats, SearchAfterExtractor, CompositeAggExtractor, Query) and
to json.loads (full parsing = the oracle).  The ijson event model is compared with the real ijson on every document.
"""
import asyncio
import io
import json
import math
import re
from decimal import Decimal
from fractions import Fraction

from harness.framework import Stream, HarnessError

PROPERTY = "C19"
RULE = ("type-directed generator over the Elasticsearch response shapes (bulk, search, scroll, composite-agg pages) plus generic "
        "JSON values; adversarial strings (quotes, backslashes, brackets, 'sort', '\"sort\"', control and non-ASCII characters), "
        "int/float/exponent literals, shuffled key order, 8 whitespace/escaping styles; a case is non-trivial when the document "
        "has at least one item/hit; signature = (model branch tags, outcome class, shape knobs); session streams: 2-6 calls on one "
        "shared instance / registered runner with varying parameters, non-trivial when the calls differ in path / pit / hits_total / type; "
        "bulk responses with 4-33 failed items whose reasons differ per item (distinct (status, reason) pairs around and beyond the five shown); "
        "concurrent_searches: 2-4 paginated searches with page sizes 1..100 and totals at the page boundaries in flight together on the "
        "registered runner, non-trivial when their requests really interleave and the page sizes differ")
TRUSTED = [
    "CPython json.loads is the reference full parser (the Lean renderer is validated against it on every document)",
    "ijson 2.6.1 pure-python backend: its event stream is modelled on JSON values and compared with the real library on every generated document",
    "python `re` (`sort\":\\s*` anchored match, Unicode \\s), `str.rfind` and `JSONDecoder.raw_decode` as used by SearchAfterExtractor are modelled by hand",
]
ASSUMPTIONS = [
    "a task keeps handing out the same params dict / request body (SearchParamSource.params); after an invocation that raised, the task is given fresh parameters",
    "responses are well-formed JSON texts in UTF-8 without duplicate keys on the selected paths; status / took / hits.total / _shards.* are integer literals",
    "Elasticsearch sets `errors` to true iff some bulk item has status > 299 (items that only report failed replica shards do not set it)",
    "top-level / hits / _shards keys are the Elasticsearch vocabulary (no key aliasing a selected dotted path)",
]

_ENC = re.compile(r"~([0-9a-f]+);")


def dec(s):
    return _ENC.sub(lambda m: chr(int(m.group(1), 16)), s)


# ---------------------------------------------------------------------------------------------
# tagged documents
# ---------------------------------------------------------------------------------------------
def N(lit):
    return {"n": str(lit)}


def O(*pairs):
    return {"o": [[k, v] for k, v in pairs]}


def is_int_lit(lit):
    return not any(c in lit for c in ".eE")


def to_py(d):
    """what json.loads gives for the rendered document"""
    if d is None or isinstance(d, (bool, str)):
        return d
    if isinstance(d, list):
        return [to_py(x) for x in d]
    if "n" in d:
        return int(d["n"]) if is_int_lit(d["n"]) else float(d["n"])
    return {k: to_py(v) for k, v in d["o"]}


def m_doc(v):
    """tagged document coming back from the model -> python value (as json.loads)"""
    if v is None or isinstance(v, bool):
        return v
    if isinstance(v, str):
        return dec(v)
    if isinstance(v, list):
        return [m_doc(x) for x in v]
    if "n" in v:
        lit = dec(v["n"])
        return int(lit) if is_int_lit(lit) else float(lit)
    return {dec(k): m_doc(x) for k, x in v["o"]}


def m_val(v):
    """SVal / PVal coming back from the model -> python value as ijson / parse() produce it"""
    if v is None or isinstance(v, bool):
        return v
    if isinstance(v, str):
        return dec(v)
    if "n" in v:
        lit = dec(v["n"])
        return int(lit) if is_int_lit(lit) else Decimal(lit)
    return {dec(k): m_val(x) for k, x in v["d"]}


def m_dict(pairs):
    return {(None if k is None else dec(k)): m_val(v) for k, v in pairs}


def canon(v):
    """type-strict, JSON-serialisable canonical form (bool != int, int != Decimal, Decimals numerically)"""
    if v is None:
        return None
    if isinstance(v, bool):
        return ["b", v]
    if isinstance(v, int):
        return ["i", str(v)]
    if isinstance(v, Decimal):
        return ["d", str(Fraction(v))]
    if isinstance(v, float):
        return ["f", str(Fraction(v)) if math.isfinite(v) else repr(v)]
    if isinstance(v, str):
        return ["s", v]
    if isinstance(v, dict):
        return ["D", sorted(([("\0None" if k is None else k), canon(x)] for k, x in v.items()), key=lambda p: p[0])]
    if isinstance(v, (list, tuple)):
        return ["L", [canon(x) for x in v]]
    return ["?", repr(v)]


def loose(v):
    """canonical form for 'equal to full parsing': Decimal -> float (what a serializer / json.loads gives)"""
    if isinstance(v, Decimal):
        return canon(float(v))
    if isinstance(v, dict):
        return ["D", sorted(([("\0None" if k is None else k), loose(x)] for k, x in v.items()), key=lambda p: p[0])]
    if isinstance(v, (list, tuple)):
        return ["L", [loose(x) for x in v]]
    return canon(v)


# ---------------------------------------------------------------------------------------------
# generators: strings, numbers, styles, generic values
# ---------------------------------------------------------------------------------------------
FRAGS = ['"', "\\", "]", "[", "sort", '"sort"', 'sort":', "errors", "é", "\n", "\t", "\r", "\x01", "\x1f", "\x7f", "😀", " ",
         "{", "}", ",", ":", "/", "~", ".", "item", " ", "a", "b", "took", "x]y", "\\\"", "\\\\", "null", "true", "1", "-", "e", "\x08", "\x0c", "ü", "￿"]
PLAIN = ["a", "b", "idx", "doc-1", "2021-01-04", "foo bar", "é", "x.y", "", "sort_key", "resort"]


def gen_str(rng, adversarial=0.6):
    if rng.random() < adversarial:
        return "".join(rng.choice(FRAGS) for _ in range(rng.randrange(0, 5)))
    return rng.choice(PLAIN)


def gen_safe_str(rng):
    """a string whose rendering contains neither ']' nor the token \"sort\" """
    return rng.choice(["a", "b", "1", "é", 'q"uote', "back\\slash", "x[y", "tab\t", "", "😀", "so rt", "2021-01-04T00:00:00Z"])


def gen_int_lit(rng, nonneg=False):
    v = rng.choice([0, 1, 2, 3, 5, 10, 17, 200, 201, 299, 300, 404, 409, 429, 500, 1609780186, 2**31, 2**53 + 1, 10**25])
    if not nonneg and rng.random() < 0.15:
        return "-" + str(v)
    return str(v)


def gen_num_lit(rng):
    r = rng.random()
    if r < 0.5:
        return gen_int_lit(rng)
    return rng.choice(["1.5", "-0.0", "0.0", "1e2", "1E+2", "2.5e-3", "-1.25E-2", "0.1", "3.141592653589793", "1e0", "0e5", "-0", "12.50", "1.7976931348623157e308", "5e-324", "100.0"])


STYLES = [
    {},
    {"after_comma": " ", "after_colon": " "},
    {"after_open": "\n  ", "before_close": "\n", "after_comma": "\n  ", "before_colon": " ", "after_colon": " ", "in_empty": " ", "trail": "\n"},
    {"ascii": True},
    {"after_colon": "\t", "before_comma": " ", "after_comma": "\r\n", "lead": " ", "trail": " \n"},
    {"after_open": " ", "before_close": " ", "in_empty": "  "},
    {"after_comma": " ", "after_colon": " ", "ascii": True},
    {"before_colon": "\n"},
]


def gen_style(rng, compact_bias=0.5):
    if rng.random() < compact_bias:
        return dict(rng.choice([STYLES[0], STYLES[1], STYLES[3], STYLES[5], STYLES[6]]))
    return dict(rng.choice(STYLES))


def gen_value(rng, depth=0, adversarial=0.6):
    r = rng.random()
    if depth >= 3 or r < 0.45:
        k = rng.randrange(6)
        if k == 0:
            return None
        if k == 1:
            return rng.random() < 0.5
        if k == 2:
            return N(gen_num_lit(rng))
        return gen_str(rng, adversarial)
    if r < 0.7:
        return [gen_value(rng, depth + 1, adversarial) for _ in range(rng.randrange(0, 4))]
    return gen_obj(rng, depth + 1, adversarial)


def gen_key(rng, adversarial):
    if rng.random() < adversarial:
        return rng.choice(["", "a", "b", "a.b", "item", "sort", "took", "errors", "hits", "total", "hits.total", "x]", 'q"', "é", "a.", ".", "value", "😀"])
    return rng.choice(["a", "b", "c", "field", "name", "value", "id"])


def gen_obj(rng, depth=0, adversarial=0.6, dups=0.1):
    n = rng.randrange(0, 4)
    pairs = []
    for _ in range(n):
        k = gen_key(rng, adversarial)
        if any(k == p[0] for p in pairs) and rng.random() > dups:
            continue
        pairs.append([k, gen_value(rng, depth + 1, adversarial)])
    return {"o": pairs}


def shuffled(rng, pairs, p):
    pairs = [x for x in pairs if x is not None]
    if rng.random() < p:
        rng.shuffle(pairs)
    return {"o": [[k, v] for k, v in pairs]}


# ---------------------------------------------------------------------------------------------
# Elasticsearch shapes
# ---------------------------------------------------------------------------------------------
def gen_bulk_item(rng, fail_p, shard_fail_p, uniq=None):
    """`uniq`: a pool of distinct prefixes — the reasons of the failed items then differ from item to item (version
    conflicts name the document), so the number of DISTINCT (status, reason) pairs grows with the number of items"""
    op = rng.choice(["index", "create", "update", "delete"])
    failed = rng.random() < fail_p
    status = rng.choice([400, 404, 409, 429, 500, 503, 300]) if failed else rng.choice([200, 201, 201, 299])
    pairs = [["_index", gen_str(rng, 0.3)], ["_id", gen_str(rng, 0.5)]]
    shard_failed = False
    es_shape = True
    if failed:
        e = rng.random()
        if e < 0.86:
            rk = rng.random()
            reason = ["reason", gen_str(rng, 0.5)] if rk < 0.85 else (["reason", None] if rk < 0.95 else None)
            if uniq and reason is not None and reason[1] is not None:
                reason = ["reason", "[" + uniq.pop() + "]: " + reason[1]]
            es_shape = reason is not None
            err = shuffled(rng, [["type", rng.choice(["version_conflict_engine_exception", "mapper_parsing_exception"])], reason,
                                 ["caused_by", O(["type", "x"], ["reason", gen_str(rng)])] if rng.random() < 0.2 else None], 0.3)
        else:
            es_shape = False
            err = rng.choice([gen_str(rng, 0.3), None, O(), "absent"])
        if err != "absent":
            pairs.append(["error", err])
    else:
        pairs += [["_version", N(gen_int_lit(rng, True))], ["result", rng.choice(["created", "updated", "deleted", "noop"])]]
    if not failed or rng.random() < 0.2:
        if rng.random() < 0.85:
            total = rng.choice([1, 2, 3])
            f = 0
            if rng.random() < shard_fail_p:
                f = rng.randrange(1, total + 1) if total > 0 else 0
                shard_failed = f > 0
            sh = [["total", N(total)], ["successful", N(total - f)], ["failed", N(f)]]
            if f and rng.random() < 0.5:
                sh.append(["failures", [O(["_index", "i"], ["_shard", N(0)], ["reason", O(["type", "x"], ["reason", gen_str(rng)])])]])
            pairs.append(["_shards", shuffled(rng, sh, 0.2)])
    pairs.append(["status", N(status)])
    if not failed and rng.random() < 0.5:
        pairs += [["_seq_no", N(gen_int_lit(rng, True))], ["_primary_term", N(1)]]
    return O([op, shuffled(rng, pairs, 0.3)]), failed, shard_failed, es_shape


def gen_bulk_doc(rng):
    mode = rng.random()
    fail_p = 0.0 if mode < 0.35 else rng.choice([0.1, 0.5, 1.0])
    shard_fail_p = rng.choice([0.0, 0.0, 0.0, 0.3])
    n = rng.choice([0, 1, 1, 2, 3, 5, 8])
    uniq = None
    if rng.random() < 0.22:
        # many failed items with reasons of their own: around the limit of five shown entries and well beyond
        n = rng.choice([4, 5, 6, 7, 8, 9, 12, 20, 33])
        fail_p = rng.choice([0.6, 0.9, 1.0])
        uniq = ["%s%02d" % (rng.choice(["doc-", "dö\"c]-", ""]), k) for k in range(n)]
        rng.shuffle(uniq)
    items, any_failed, any_shard, es_shape = [], False, False, True
    for _ in range(n):
        it, f, sf, es = gen_bulk_item(rng, fail_p, shard_fail_p, uniq)
        items.append(it)
        any_failed |= f
        any_shard |= sf
        es_shape &= es
    flag_mode = "es"
    errors = any_failed  # Elasticsearch: errors == some item carries a failure (status > 299)
    r = rng.random()
    if r < 0.06:
        errors, flag_mode = (not errors), "inverted"
    elif r < 0.09:
        errors, flag_mode = "absent", "absent"
    top = [["took", N(gen_int_lit(rng, True))] if rng.random() < 0.95 else None,
           ["ingest_took", N(3)] if rng.random() < 0.1 else None,
           ["errors", errors] if errors != "absent" else None,
           ["items", items]]
    return shuffled(rng, top, 0.3), {"flag_mode": flag_mode, "shard_fail": any_shard, "any_failed": any_failed, "n": n, "es_error_shape": es_shape}


def gen_sort_values(rng, knobs):
    vals = []
    for _ in range(rng.randrange(1, 4)):
        r = rng.random()
        if r < 0.4:
            vals.append(N(gen_num_lit(rng)))
        elif r < 0.5:
            vals.append(None)
        elif r < 0.55:
            vals.append(rng.random() < 0.5)
        elif knobs.get("bracket") and rng.random() < 0.5:
            vals.append(rng.choice(["a]b", "]", "x]y[z", "[]"]))
        else:
            vals.append(gen_safe_str(rng))
    return vals


def gen_hit(rng, knobs, with_sort=True):
    src_adv = 0.5 if knobs.get("adversarial_source") else 0.0
    if knobs.get("adversarial_source"):
        src = gen_obj(rng, 1, src_adv)
    else:
        src = O(["title", gen_safe_str(rng)], ["n", N(gen_num_lit(rng))], ["tags", [gen_safe_str(rng) for _ in range(rng.randrange(0, 3))]])
    pairs = [["_index", "idx"], ["_id", gen_safe_str(rng)], ["_score", rng.choice([None, N("1.0"), N("0.5")])], ["_source", src]]
    if with_sort:
        pairs.append(["sort", gen_sort_values(rng, knobs)])
    if knobs.get("later_token"):
        k = rng.randrange(4)
        if k == 0:
            pairs.append(["matched_queries", ["sort"]])
        elif k == 1:
            pairs.append(["inner_hits", O(["c", O(["hits", O(["total", O(["value", N(1)], ["relation", "eq"])], ["hits", [O(["_id", "c1"], ["sort", [N(7)]])]])])])])
        elif k == 2:
            pairs.append(["fields", O(["sort", ["v"]])])
        else:
            pairs.append(["highlight", O(["f", ["sort"]])])
    return shuffled(rng, pairs, knobs.get("shuffle", 0.0))


def gen_search_doc(rng, knobs, nhits=None, total=None, es6=None, pit=False, scroll=False, with_sort=True, took=None, timed_out=None):
    if nhits is None:
        nhits = rng.choice([0, 1, 2, 3, 5])
    if total is None:
        total = rng.choice([nhits, nhits + 3, 10000, 0]) if nhits else rng.choice([0, 0, 7])
    if es6 is None:
        es6 = rng.random() < 0.2
    hits = [gen_hit(rng, knobs, with_sort) for _ in range(nhits)]
    tot = N(total) if es6 else shuffled(rng, [["value", N(total)], ["relation", rng.choice(["eq", "gte"])]], knobs.get("shuffle", 0.0))
    hobj = shuffled(rng, [["total", tot] if not knobs.get("no_total") else None, ["max_score", rng.choice([None, N("1.0")])], ["hits", hits]], knobs.get("shuffle", 0.0))
    sh = shuffled(rng, [["total", N(rng.choice([1, 5]))], ["successful", N(rng.choice([1, 5]))], ["skipped", N(0)], ["failed", N(rng.choice([0, 0, 1]))]], knobs.get("shuffle", 0.0))
    top = [["pit_id", gen_safe_str(rng) or "p"] if pit else None,
           ["_scroll_id", rng.choice(["DXF1ZXJ5QW5k", "c2Nyb2xs]", gen_safe_str(rng) or "s"])] if scroll else None,
           ["took", N(took if took is not None else gen_int_lit(rng, True))] if not knobs.get("no_took") else None,
           ["timed_out", (rng.random() < 0.2) if timed_out is None else timed_out],
           ["_shards", sh] if rng.random() < 0.9 else None,
           ["hits", hobj]]
    if knobs.get("aggs_after"):
        k = rng.randrange(3)
        if k == 0:
            top.append(["aggregations", O(["by_key", O(["buckets", [O(["key", "sort"], ["doc_count", N(3)])]])])])
        elif k == 1:
            top.append(["aggregations", O(["top", O(["hits", O(["hits", [O(["_id", "z"], ["sort", [N(99)]])]])])])])
        else:
            top.append(["suggest", O(["sort", [O(["text", "x"], ["options", []])]])])
    elif rng.random() < 0.15:
        top.append(["aggregations", O(["avg_n", O(["value", N("2.5")])])])
    if rng.random() < 0.1:
        top.append(["terminated_early", False])
    return shuffled(rng, top, knobs.get("shuffle", 0.0))


def gen_after_key(rng, nulls):
    pairs = []
    for k in rng.sample(["product", "ts", "price", "flag", "k.dotted", "é"], rng.randrange(1, 4)):
        r = rng.random()
        if nulls and r < 0.4:
            v = None
        elif r < 0.5:
            v = gen_str(rng, 0.5)
        elif r < 0.85:
            v = N(gen_num_lit(rng))
        else:
            v = rng.random() < 0.5
        pairs.append([k, v])
    return {"o": pairs}


def gen_composite_doc(rng, path, knobs, last=False, total=None, pit=False):
    agg = [["after_key", gen_after_key(rng, knobs.get("nulls"))] if not last else None,
           ["buckets", [O(["key", gen_after_key(rng, False)], ["doc_count", N(gen_int_lit(rng, True))]) for _ in range(0 if last else rng.randrange(1, 3))]]]
    node = shuffled(rng, agg, knobs.get("shuffle", 0.0))
    for name in reversed(path[1:]):
        node = O(["doc_count", N(5)], [name, node])
    es6 = rng.random() < 0.2
    total = rng.choice([0, 5, 10000]) if total is None else total
    tot = N(total) if es6 else O(["value", N(total)], ["relation", "gte"])
    aggs = [[path[0], node]]
    if rng.random() < 0.3:
        aggs.insert(rng.randrange(2), ["other", O(["value", N("1.5")])])
    top = [["pit_id", gen_safe_str(rng) or "p"] if pit else None,
           ["took", N(gen_int_lit(rng, True))], ["timed_out", rng.random() < 0.2],
           ["_shards", O(["total", N(1)], ["successful", N(1)], ["skipped", N(0)], ["failed", N(0)])],
           ["hits", O(["total", tot], ["max_score", None], ["hits", []])],
           ["aggregations", {"o": aggs}]]
    return shuffled(rng, top, knobs.get("shuffle", 0.0))


# ---------------------------------------------------------------------------------------------
# shared helpers for the run functions
# ---------------------------------------------------------------------------------------------
def render(ctx, doc, style):
    m = ctx.model("jsonfast", "render", {"doc": doc, "style": style})
    text = dec(m["r"]["text"])
    return text, m["r"]["events"]


def check_render(ctx, doc, text):
    """the Lean renderer against the reference full parser; returns the full parse"""
    try:
        full = json.loads(text.encode("utf-8"))
    except Exception as e:  # the renderer produced something json.loads rejects: model bug
        ctx.diff("render-not-json", "well-formed JSON", f"{type(e).__name__}: {e}")
        return None
    if canon(full) != canon(to_py(doc)):
        ctx.diff("render-vs-json.loads", canon(to_py(doc)), canon(full))
    return full


def impl_call(fn):
    try:
        return {"ok": fn()}
    except Exception as e:  # noqa
        n = type(e).__name__
        return {"err": n}


def m_except(r, conv):
    if "ok" in r:
        return {"ok": conv(r["ok"])}
    return {"err": r["err"]}


def walk(full, dotted):
    """full-parse lookup doc[k1][k2]...; returns (found, value)"""
    cur = full
    for k in dotted.split("."):
        if isinstance(cur, dict) and k in cur:
            cur = cur[k]
        else:
            return False, None
    return True, cur


def has_dups(d):
    if isinstance(d, list):
        return any(has_dups(x) for x in d)
    if isinstance(d, dict) and "o" in d:
        ks = [k for k, _ in d["o"]]
        return len(set(ks)) != len(ks) or any(has_dups(v) for _, v in d["o"])
    return False


def node_prefixes(d, path=()):
    """ijson prefix of every node of the tagged document (independent of the Lean model)"""
    out = [".".join(path)]
    if isinstance(d, list):
        for x in d:
            out += node_prefixes(x, path + ("item",))
    elif isinstance(d, dict) and "o" in d:
        for k, v in d["o"]:
            out += node_prefixes(v, path + (k,))
    return out


# ---------------------------------------------------------------------------------------------
# stream 1: event model against the real ijson, renderer against json.loads
# ---------------------------------------------------------------------------------------------
def gen_any_doc(rng):
    r = rng.random()
    if r < 0.35:
        return gen_obj(rng, 0, 0.6), "generic"
    if r < 0.5:
        return gen_value(rng, 0, 0.7), "generic-any"
    if r < 0.7:
        return gen_bulk_doc(rng)[0], "bulk"
    if r < 0.9:
        kn = {"shuffle": rng.choice([0.0, 0.5]), "adversarial_source": rng.random() < 0.5, "bracket": rng.random() < 0.3,
              "later_token": rng.random() < 0.2, "aggs_after": rng.random() < 0.2}
        return gen_search_doc(rng, kn, pit=rng.random() < 0.3, scroll=rng.random() < 0.3), "search"
    return gen_composite_doc(rng, rng.choice([["c"], ["f", "c"]]), {"nulls": rng.random() < 0.3}), "composite"


def gen_events(ctx):
    rng = ctx.rng
    for _ in range(ctx.budget):
        doc, kind = gen_any_doc(rng)
        yield {"doc": doc, "style": gen_style(rng, 0.3), "kind": kind}


def ev_canon_impl(e):
    p, n, v = e
    return [p, n, canon(v)]


def ev_canon_model(e):
    p, n, v = e
    return [dec(p), n, canon(m_val(v))]


def run_events(ctx, case):
    import ijson

    text, evs = render(ctx, case["doc"], case["style"])
    check_render(ctx, case["doc"], text)
    try:
        real = [ev_canon_impl(e) for e in ijson.parse(io.BytesIO(text.encode("utf-8")))]
    except Exception as e:
        real = ["EXC", type(e).__name__, str(e)[:100]]
    mod = [ev_canon_model(e) for e in evs]
    if real != mod:
        i = next((k for k in range(min(len(real), len(mod))) if real[k] != mod[k]), min(len(real), len(mod)))
        ctx.diff("ijson-events", mod[i:i + 3], real[i:i + 3])
    kinds = sorted({e[1] for e in mod})
    ctx.count("kind:" + case.get("kind", "?"))
    ctx.sig([case.get("kind"), kinds, bool(case["style"].get("ascii")), len(mod) > 40], nontrivial=len(mod) > 2)


# ---------------------------------------------------------------------------------------------
# stream 2: runner.parse against parseSel; oracle = full parsing
# ---------------------------------------------------------------------------------------------
CALL_SITES = [
    (["errors", "took"], [], []),
    (["hits.total", "hits.total.value", "hits.total.relation", "timed_out", "took", "_shards.total", "_shards.successful", "_shards.skipped", "_shards.failed"], [], []),
    (["_scroll_id", "hits.total", "hits.total.value", "hits.total.relation", "timed_out", "took"], ["hits.hits"], []),
    (["timed_out", "took"], ["hits.hits"], []),
    (["timed_out", "took"], [], []),
    (["timed_out", "took", "pit_id", "hits.total", "hits.total.value", "hits.total.relation"], [], []),
    (["timed_out", "took", "hits.total", "hits.total.value", "hits.total.relation"], [], ["aggregations.c.after_key"]),
    (["timed_out", "took"], [], ["aggregations.f.c.after_key"]),
]


def make_parse(rng):
    doc, kind = gen_any_doc(rng)
    if rng.random() < 0.6 or kind.startswith("generic"):
        prefixes = sorted(set(node_prefixes(doc)))
        pool = prefixes + ["took", "a", "a.b", "hits.hits", "hits.total", "", "item", "a.item", "b"]
        props = [rng.choice(pool) for _ in range(rng.randrange(0, 4))]
        lists = [rng.choice(pool) for _ in range(rng.randrange(0, 3))]
        objs = [rng.choice(pool) for _ in range(rng.randrange(0, 3))]
        site = "random"
    else:
        props, lists, objs = rng.choice(CALL_SITES)
        site = "call-site"
    return {"doc": doc, "style": gen_style(rng, 0.6), "props": list(props), "lists": list(lists), "objs": list(objs), "kind": kind, "site": site}


def gen_parse(ctx):
    for _ in range(ctx.budget):
        yield make_parse(ctx.rng)


def run_parse(ctx, case):
    from esrally.driver import runner

    doc = case["doc"]
    if not (isinstance(doc, dict) and "o" in doc) and not isinstance(doc, list):
        # parse() is only ever applied to a response object; scalars at top level are fine for ijson too
        pass
    text, _ = render(ctx, doc, case["style"])
    full = check_render(ctx, doc, text)
    m = ctx.model("jsonfast", "parse", {"doc": doc, "props": case["props"], "lists": case["lists"], "objs": case["objs"]})
    mod = m_dict(m["r"])
    lists = case["lists"] if case["lists"] or ctx.rng.random() < 0.5 else None
    objs = case["objs"] if case["objs"] or ctx.rng.random() < 0.5 else None
    i = impl_call(lambda: runner.parse(io.BytesIO(text.encode("utf-8")), list(case["props"]), lists, objs))
    if "err" in i:
        ctx.diff("parse-raised", canon(mod), i)
        return None
    if canon(i["ok"]) != canon(mod):
        ctx.diff("parse", canon(mod), canon(i["ok"]))
    # direct oracle: equal to full parsing, wherever the dotted name is unambiguous in the document
    applicable = 0
    if full is not None and isinstance(full, dict) and not has_dups(doc):
        prefixes = node_prefixes(doc)
        got = i["ok"]
        for p in set(case["props"]):
            if p in (case["lists"] or []) or p in (case["objs"] or []) or prefixes.count(p) > 1 or p == "":
                continue
            found, v = walk(full, p)
            if prefixes.count(p) == 0:
                if p in got:
                    ctx.fail("parse-prop-phantom", f"parse returned a value for absent property {p!r}", None, canon(got[p]))
                applicable += 1
            elif found and not isinstance(v, (dict, list)):
                applicable += 1
                if p not in got or loose(got[p]) != loose(v):
                    ctx.fail("parse-prop-differs", f"property {p!r} differs from full parsing", loose(v), loose(got.get(p, "<absent>")))
        for l in set(case["lists"] or []):
            if l in case["props"] or l in (case["objs"] or []) or prefixes.count(l) != 1:
                continue
            found, v = walk(full, l)
            if found and isinstance(v, list):
                applicable += 1
                if got.get(l) is not (len(v) == 0):
                    ctx.fail("parse-list-flag", f"emptiness flag of {l!r} wrong", len(v) == 0, canon(got.get(l)))
        for o in set(case["objs"] or []):
            if o in case["props"] or o in (case["lists"] or []) or prefixes.count(o) != 1 or o == "":
                continue
            if len([x for x in (case["objs"] or []) if x == o or x.startswith(o + ".") or o.startswith(x + ".")]) > 1:
                continue
            if any(x.startswith(o + ".") for x in list(case["props"]) + list(case["lists"] or [])):
                continue
            found, v = walk(full, o)
            if found and isinstance(v, dict) and all(not isinstance(x, (dict, list)) for x in v.values()):
                applicable += 1
                cls = "after-key-null-dropped" if any(x is None for x in v.values()) else "parse-object-differs"
                if o not in got or loose(got[o]) != loose(v):
                    ctx.fail(cls, f"flat object {o!r} differs from full parsing", loose(v), loose(got.get(o, "<absent>")))
    ctx.count("site:" + case["site"])
    ctx.sig([m.get("tags"), case["site"], case["kind"], sorted(type(v).__name__ for v in mod.values())[:6], applicable > 0],
            nontrivial=bool(mod))
    return canon(i["ok"])


# ---------------------------------------------------------------------------------------------
# stream 3: bulk accounting
# ---------------------------------------------------------------------------------------------
def make_bulk(rng):
    doc, info = gen_bulk_doc(rng)
    n = info["n"]
    unit_docs = rng.random() < 0.85
    bulk_size = n if rng.random() < 0.9 else n + rng.choice([1, 5])
    return {"doc": doc, "style": gen_style(rng, 0.6), "bulk_size": bulk_size, "unit_docs": unit_docs, "info": info}


def gen_bulk(ctx):
    for _ in range(ctx.budget):
        yield make_bulk(ctx.rng)


def gen_bulk_malformed(ctx):
    """separate malformed stream: items / status / _shards missing or of the wrong type"""
    rng = ctx.rng
    for _ in range(ctx.budget):
        doc, info = gen_bulk_doc(rng)
        top = doc["o"]
        items = next((v for k, v in top if k == "items"), None)
        k = rng.randrange(9)
        if k == 0:
            doc = {"o": [p for p in top if p[0] != "items"]}
        elif k == 1 and items:
            items[rng.randrange(len(items))] = O()
        elif k == 2 and items:
            it = rng.choice(items)["o"][0][1]
            it["o"] = [p for p in it["o"] if p[0] != "status"]
        elif k == 3 and items:
            it = rng.choice(items)["o"][0][1]
            it["o"] = [[a, (rng.choice([None, "201"]) if a == "status" else b)] for a, b in it["o"]]
        elif k == 4 and items:
            it = rng.choice(items)["o"][0][1]
            it["o"] = [[a, (rng.choice([None, "x", N(3)]) if a == "_shards" else b)] for a, b in it["o"]]
        elif k == 5 and items:
            it = rng.choice(items)["o"][0][1]
            for p in it["o"]:
                if p[0] == "_shards" and isinstance(p[1], dict):
                    drop = rng.choice(["failed", "total", "successful"])
                    p[1]["o"] = [q for q in p[1]["o"] if q[0] != drop]
        elif k == 6 and items:
            items[rng.randrange(len(items))] = rng.choice([None, "x", [N(1)], N(5)])
        elif k == 7:
            doc = {"o": [[a, (rng.choice([None, O(), "", "ab", N(1), O(["a", N(1)])]) if a == "items" else b)] for a, b in top]}
        else:
            doc = {"o": [[a, (rng.choice([None, "false", "", N(0), N(1), N("0.0"), [], O()]) if a == "errors" else b)] for a, b in top]}
        info = dict(info, flag_mode="malformed")
        yield {"doc": doc, "style": gen_style(rng, 0.8), "bulk_size": info["n"], "unit_docs": True, "info": info}


def stats_canon_impl(st):
    return {"took": canon(st.get("took")), "success": st["success"], "success_count": st["success-count"], "error_count": st["error-count"]}


def stats_canon_model(st):
    took = None if st["took"] is None else m_val(st["took"][0])
    return {"took": canon(took), "success": st["success"], "success_count": st["success_count"], "error_count": st["error_count"]}


def oracle_item_failed(data):
    return data["status"] > 299 or ("_shards" in data and data["_shards"]["failed"] > 0)


def oracle_description(datas):
    """the property's reading of `error-description` on an in-shape response, from the full parse alone: the DISTINCT
    (status, error.reason) pairs of ALL failed items, smallest five shown, the rest summarised per status"""
    pairs = set()
    for d in datas:
        if oracle_item_failed(d):
            pairs.add((d["status"], d["error"]["reason"] if "error" in d else None))
    if not pairs:
        return None, 0
    ordered = sorted(pairs, key=lambda p: (p[0], p[1] or ""))
    text = " | ".join(f"HTTP status: {st}, message: {r}" if r else f"HTTP status: {st}" for st, r in ordered[:5])
    if len(ordered) > 5:
        per = {}
        for st, _ in ordered:
            per[st] = per.get(st, 0) + 1
        text += " | TRUNCATED " + ", ".join(f"{per[st]}x{st}" for st in sorted(per))
    return text, len(pairs)


def run_bulk(ctx, case, b=None):
    from esrally.driver import runner

    doc, info = case["doc"], case["info"]
    text, _ = render(ctx, doc, case["style"])
    full = check_render(ctx, doc, text)
    if full is None:
        return
    m = ctx.model("jsonfast", "bulk", {"doc": doc, "bulk_size": case["bulk_size"], "unit_docs": case["unit_docs"]})
    b = b if b is not None else runner.BulkIndex()
    unit = "docs" if case["unit_docs"] else "pages"
    si = impl_call(lambda: b.simple_stats(case["bulk_size"], unit, io.BytesIO(text.encode("utf-8"))))
    di = impl_call(lambda: b.detailed_stats({"action-metadata-present": True, "body": "{}\n{}", "bulk-size": case["bulk_size"], "unit": unit}, json.loads(text)))
    ret = {}
    for name, impl, mod in (("simple", si, m["r"]["simple"]), ("detailed", di, m["r"]["detailed"])):
        if mod.get("err") == "Unsupported":
            ctx.count("out-of-model:" + name)
            continue
        mm = m_except(mod, stats_canon_model)
        ii = m_except(impl, stats_canon_impl)
        ret[name] = ii
        if mm != ii:
            ctx.diff("bulk-" + name, mm, ii)
        # what the path SAYS about the failures (error-type / error-description of the returned stats)
        if "ok" in impl and "ok" in mod:
            mdesc = None if mod["ok"]["description"] is None else dec(mod["ok"]["description"])
            idesc = impl["ok"].get("error-description")
            if mdesc != idesc or (idesc is not None) != (impl["ok"].get("error-type") == "bulk"):
                ctx.diff("bulk-error-description-" + name, mdesc, [idesc, impl["ok"].get("error-type")])
            ret[name + "-description"] = idesc
        # error details: the set handed to error_description, observed through extract_error_details itself
        if "ok" in impl and "ok" in mod:
            exp_details = sorted([[s, None if r is None else dec(r)] for s, r in mod["ok"]["details"]], key=lambda p: (p[0], p[1] is not None, p[1] or ""))
            got = set()
            try:
                for item in full["items"]:
                    data = next(iter(item.values()))
                    if oracle_item_failed(data):
                        b.extract_error_details(got, data)
                got_l = sorted([[s, r] for s, r in got], key=lambda p: (p[0], p[1] is not None, p[1] or ""))
            except Exception as e:
                got_l = ["EXC", type(e).__name__]
            flag_true = name == "detailed" or impl["ok"]["error-count"] > 0 or mod["ok"]["error_count"] > 0
            if flag_true and got_l != exp_details:
                ctx.diff("bulk-error-details-" + name, exp_details, got_l)
    # direct oracle (property statement) on in-shape responses
    in_shape = info["flag_mode"] == "es" and info.get("es_error_shape", False)
    if in_shape:
        datas = [next(iter(it.values())) for it in full["items"]]
        nfail = sum(1 for d in datas if oracle_item_failed(d))
        nsucc = len(datas) - nfail
        exp = {"success": nfail == 0, "success-count": nsucc, "error-count": nfail}
        reasons = {}
        for d in datas:
            if oracle_item_failed(d):
                reasons.setdefault(d["status"], set()).add(type((d.get("error") or {}).get("reason")).__name__)
        mixed = any(len(v) > 1 for v in reasons.values())
        for name, r in (("detailed", di), ("fast", si)):
            if "ok" not in r:
                cls = "bulk-error-description-none-vs-str" if (r["err"] == "TypeError" and mixed) else "bulk-" + name + "-raises"
                ctx.fail(cls, f"{name} path raises {r['err']} on an in-shape response instead of reporting counts", exp, r)
        if "ok" in di:
            d = di["ok"]
            if (d["success"], d["success-count"], d["error-count"]) != (exp["success"], nsucc, nfail):
                ctx.fail("bulk-detailed-counts", "detailed_stats counts differ from the items", exp, stats_canon_impl(d))
        if "ok" in si:
            s = si["ok"]
            counts_ok = s["success"] == exp["success"] and s["error-count"] == nfail
            if case["unit_docs"] and case["bulk_size"] == len(datas) or s["error-count"] > 0:
                counts_ok = counts_ok and s["success-count"] == nsucc
            if not counts_ok:
                only_shard = all(d["status"] <= 299 for d in datas)
                cls = "bulk-fastpath-misses-shard-failure" if (only_shard and full.get("errors") is False) else "bulk-fast-counts"
                ctx.fail(cls, "simple_stats disagrees with the items of the response", exp, stats_canon_impl(s))
            if "took" in full and not isinstance(full["took"], (dict, list)) and loose(s.get("took")) != loose(full["took"]):
                ctx.fail("bulk-fast-took", "took differs from full parsing", loose(full["took"]), loose(s.get("took")))
        # what is said about the failures equals what full parsing of the same bytes finds, in both paths
        exp_desc, ndistinct = oracle_description(datas)
        ctx.count("distinct-failures:" + (str(ndistinct) if ndistinct <= 7 else "8+"))
        if "ok" in di and di["ok"].get("error-description") != exp_desc:
            ctx.fail("bulk-detailed-error-description", "error-description of detailed_stats differs from the failed items of the response",
                     exp_desc, di["ok"].get("error-description"))
        if "ok" in si and si["ok"]["error-count"] > 0 and si["ok"].get("error-description") != exp_desc:
            ctx.fail("bulk-fast-error-description", "error-description of simple_stats differs from the failed items of the response (full parse / detailed path)",
                     exp_desc, si["ok"].get("error-description"))
    ctx.count("flag:" + info["flag_mode"])
    nd = len({json.dumps(x) for x in m["r"]["detailed"]["ok"]["details"]}) if "ok" in m["r"]["detailed"] else -1
    ctx.sig([m.get("tags"), info["flag_mode"], info["shard_fail"], info["any_failed"], case["unit_docs"], min(info["n"], 2), min(nd, 7)],
            nontrivial=info["n"] > 0)
    return ret



# ---------------------------------------------------------------------------------------------
# stream 4: SearchAfterExtractor (selected properties + cursor)
# ---------------------------------------------------------------------------------------------
def gen_cursor_knobs(rng):
    r = rng.random()
    kn = {"shuffle": 0.0, "adversarial_source": rng.random() < 0.5}
    if r < 0.55:
        kn["cls"] = "clean"
    elif r < 0.7:
        kn.update(bracket=True, cls="bracket")
    elif r < 0.8:
        kn.update(later_token=True, cls="later")
    elif r < 0.9:
        kn.update(aggs_after=True, cls="aggs")
    else:
        kn.update(shuffle=0.7, cls="shuffle")
    return kn


def make_cursor(rng):
    kn = gen_cursor_knobs(rng)
    pit = rng.random() < 0.3
    doc = gen_search_doc(rng, kn, pit=pit and rng.random() < 0.9, with_sort=rng.random() < 0.93)
    style = gen_style(rng, 0.75)
    ht = None if rng.random() < 0.6 else N(rng.choice([0, 3, 10000]))
    return {"doc": doc, "style": style, "pit": pit, "hits_total": ht, "knobs": kn}


def gen_cursor(ctx):
    for _ in range(ctx.budget):
        yield make_cursor(ctx.rng)


def expected_last_sort(full):
    try:
        hits = full["hits"]["hits"]
    except Exception:
        return None
    if not hits:
        return None
    return hits[-1].get("sort")


def classify_cursor(text, full, style):
    """input class of a wrong cursor, determined on the text alone"""
    exp = expected_last_sort(full)
    if exp is None:
        return "cursor-later-sort-token"  # something was found although the last hit has no sort
    i = text.rfind('"sort"')
    j = i + 6
    while j < len(text) and text[j] in " \t\n\r":
        j += 1
    at_last = None
    if j < len(text) and text[j] == ":":
        try:
            at_last = json.JSONDecoder().raw_decode(text, json.decoder.WHITESPACE.match(text, j + 1).end())[0]
        except Exception:
            at_last = None
    if canon(at_last) != canon(exp):
        return "cursor-later-sort-token"
    if style.get("before_colon"):
        return "cursor-space-before-colon"
    if any(isinstance(v, str) and "]" in v for v in exp):
        return "cursor-bracket-in-sort-string"
    return "cursor-other"


def report_cursor(ctx, cls, what, expected, observed):
    """whitespace between a key and its colon (pretty-printed responses) is not among the dimensions the property
    quantifies over (strings, numbers, nesting, key order) and Elasticsearch only emits it on request (?pretty):
    counted and noted, not a verdict; the Lean theorem carries the hypothesis and a witness of its necessity"""
    if cls == "cursor-space-before-colon":
        ctx.count("outside-quantifier:" + cls)
        ctx.notes["outside-quantifier"] = "pretty-printed text ('\"sort\" : [..]') yields no cursor (regex needs 'sort\":'); not counted as a violation"
    else:
        ctx.fail(cls, what, expected, observed)


def oracle_page_props(full, pit, hits_total):
    exp = {}
    for k in ["timed_out", "took"] + (["pit_id"] if pit else []):
        if k in full:
            exp[k] = full[k]
    tot = full.get("hits", {}).get("total") if isinstance(full.get("hits"), dict) else None
    if hits_total is None:
        exp["hits.total.value"] = tot["value"] if isinstance(tot, dict) else tot
        exp["hits.total.relation"] = tot["relation"] if isinstance(tot, dict) else "eq"
    else:
        exp["hits.total.value"] = hits_total
        exp["hits.total.relation"] = "eq"
    return exp


def conv_sax_model(r):
    return [canon(m_dict(r[0])), canon(None if r[1] is None else m_doc(r[1][0]))]


def run_cursor(ctx, case, ex=None):
    from esrally.driver import runner

    doc, style, pit = case["doc"], case["style"], case["pit"]
    text, _ = render(ctx, doc, style)
    full = check_render(ctx, doc, text)
    if full is None:
        return None
    ht = None if case["hits_total"] is None else int(case["hits_total"]["n"])
    m = ctx.model("jsonfast", "search_after_extract", {"doc": doc, "style": style, "pit": pit, "hits_total": case["hits_total"]})
    ex = ex if ex is not None else runner.SearchAfterExtractor()
    i = impl_call(lambda: ex(io.BytesIO(text.encode("utf-8")), pit, ht))
    mm = m_except(m["r"], conv_sax_model)
    ii = m_except(i, lambda r: [canon(r[0]), canon(r[1])])
    if m["r"].get("err") == "Unsupported":
        ctx.count("out-of-model")
    elif mm != ii:
        ctx.diff("search-after-extract", mm, ii)
    # direct oracle
    exp_sort = expected_last_sort(full)
    has_pit = bool(full.get("pit_id"))
    if pit and not has_pit:
        if i.get("err") != "RallyAssertionError":
            ctx.fail("pit-missing-not-reported", "missing pit_id must raise RallyAssertionError", "RallyAssertionError", ii)
    else:
        # the cursor is extracted on the text alone: judge it separately from the property dict
        cur = impl_call(lambda: ex._get_last_sort(io.BytesIO(text.encode("utf-8"))))
        if "err" in cur or canon(cur["ok"]) != canon(exp_sort):
            report_cursor(ctx, classify_cursor(text, full, style), "cursor differs from the sort value of the last hit", canon(exp_sort), cur if "err" in cur else canon(cur["ok"]))
        if "ok" in i:
            exp = oracle_page_props(full, pit, ht)
            if loose(i["ok"][0]) != loose(exp):
                ctx.fail("page-props-differ", "extracted page properties differ from full parsing", loose(exp), loose(i["ok"][0]))
    ctx.count("cls:" + case["knobs"]["cls"])
    ctx.sig([m.get("tags"), case["knobs"]["cls"], pit, ht is None, bool(style.get("before_colon")), exp_sort is None],
            nontrivial=bool(full.get("hits", {}).get("hits")))
    return ii


# ---------------------------------------------------------------------------------------------
# stream 5: CompositeAggExtractor
# ---------------------------------------------------------------------------------------------
def make_composite(rng):
    path = rng.choice([["c"], ["f", "c"], ["my_agg"], ["a", "b", "c"]])
    kn = {"nulls": rng.random() < 0.25, "shuffle": rng.choice([0.0, 0.0, 0.6])}
    pit = rng.random() < 0.3
    doc = gen_composite_doc(rng, path, kn, last=rng.random() < 0.2, pit=pit and rng.random() < 0.9)
    ht = None if rng.random() < 0.6 else N(rng.choice([0, 3, 10000]))
    return {"doc": doc, "style": gen_style(rng, 0.6), "pit": pit, "path": path, "hits_total": ht, "knobs": kn}


def gen_composite(ctx):
    for _ in range(ctx.budget):
        yield make_composite(ctx.rng)


def run_composite(ctx, case, ex=None):
    from esrally.driver import runner

    doc, style, pit, path = case["doc"], case["style"], case["pit"], case["path"]
    text, _ = render(ctx, doc, style)
    full = check_render(ctx, doc, text)
    if full is None:
        return
    ht = None if case["hits_total"] is None else int(case["hits_total"]["n"])
    m = ctx.model("jsonfast", "composite_extract", {"doc": doc, "pit": pit, "path": path, "hits_total": case["hits_total"]})
    ex = ex if ex is not None else runner.CompositeAggExtractor()
    i = impl_call(lambda: ex(io.BytesIO(text.encode("utf-8")), pit, list(path), ht))
    mm = m_except(m["r"], lambda r: canon(m_dict(r)))
    ii = m_except(i, canon)
    if mm != ii:
        ctx.diff("composite-extract", mm, ii)
    if pit and not full.get("pit_id"):
        if i.get("err") != "RallyAssertionError":
            ctx.fail("pit-missing-not-reported", "missing pit_id must raise RallyAssertionError", "RallyAssertionError", ii)
    elif "ok" not in i:
        ctx.fail("composite-extract-raises", "extractor raises on an in-shape response", None, ii)
    else:
        exp = oracle_page_props(full, pit, ht)
        found, ak = walk(full, "aggregations." + ".".join(path) + ".after_key")
        exp["after_key"] = ak if found else None
        got = dict(i["ok"])
        if loose(got.get("after_key")) != loose(exp["after_key"]):
            cls = "after-key-null-dropped" if (found and any(v is None for v in ak.values())) else "after-key-differs"
            ctx.fail(cls, "after_key differs from full parsing", loose(exp["after_key"]), loose(got.get("after_key")))
        got.pop("after_key", None)
        exp.pop("after_key")
        if loose(got) != loose(exp):
            ctx.fail("page-props-differ", "extracted page properties differ from full parsing", loose(exp), loose(got))
    ctx.sig([m.get("tags"), len(path), pit, ht is None, case["knobs"]["nulls"], "after_key" in json.dumps(doc)], nontrivial=True)
    return ii


# ---------------------------------------------------------------------------------------------
# stream 6: Query runner (page / hit accounting) against a simulated endpoint serving generated pages
# ---------------------------------------------------------------------------------------------
class Exhausted(Exception):
    pass


class FakeEs:
    def __init__(self, texts):
        self.texts = list(texts)
        self.requests = []
        self.cleared = []
        self.raw = False

    def options(self, **kw):
        return self

    def return_raw_response(self):
        self.raw = True

    async def bulk(self, params=None, **kw):
        raw, self.raw = self.raw, False
        if not self.texts:
            raise Exhausted()
        t = self.texts.pop(0)
        return io.BytesIO(t.encode("utf-8")) if raw else json.loads(t)

    async def perform_request(self, method=None, path=None, params=None, body=None, headers=None, **kw):
        self.requests.append({"path": path, "body": json.loads(json.dumps(body, default=_ser)) if body is not None else None})
        if not self.texts:
            raise Exhausted()
        return io.BytesIO(self.texts.pop(0).encode("utf-8"))

    async def clear_scroll(self, body=None, **kw):
        self.cleared.append(body)


def _ser(o):
    if isinstance(o, Decimal):
        return float(o)
    raise TypeError(type(o).__name__)


def run_query(params, texts, pit_id=None, registered=None):
    """one invocation of a runner against a fake ES serving `texts`; `registered` = the runner Rally registered for the
    operation type (shared instance, called as the driver does: context manager + cluster dict), else a fresh Query"""
    from esrally.driver import runner

    es = FakeEs(texts)
    q = runner.Query() if registered is None else None

    async def call():
        if registered is None:
            return await q(es, params)
        async with registered:
            return await registered({"default": es}, params)

    async def go():
        if pit_id is not None:
            async with runner.CompositeContext():
                runner.CompositeContext.put("open-pit", pit_id)
                return await call()
        return await call()

    loop = asyncio.new_event_loop()
    try:
        r = impl_call(lambda: loop.run_until_complete(go()))
    finally:
        loop.close()
    return r, es


BIG = 10**9
ABSENT = "<absent>"


def m_tag(v):
    """tagged document coming back from the model -> tagged document that can be sent to the model again"""
    if v is None or isinstance(v, bool):
        return v
    if isinstance(v, str):
        return dec(v)
    if isinstance(v, list):
        return [m_tag(x) for x in v]
    if "n" in v:
        return {"n": dec(v["n"])}
    if "d" in v:
        return {"d": [[dec(k), m_tag(x)] for k, x in v["d"]]}
    return {"o": [[dec(k), m_tag(x)] for k, x in v["o"]]}


def box_in(b):
    return None if b is None else {"v": m_tag(b["v"])}


def box_py(b, conv):
    return ABSENT if b is None else conv(b["v"])


def gen_scroll(ctx):
    rng = ctx.rng
    for _ in range(ctx.budget):
        size = rng.choice([None, 1, 2, 3, 10])
        npages = rng.choice([1, 1, 2, 3, 4])
        total = rng.choice([0, 1, 2, 3, 5, 25, 10000])
        pages_param = rng.choice(["all", "all", 1, 2, 3, 5])
        kn = {"shuffle": rng.choice([0.0, 0.0, 0.6]), "adversarial_source": rng.random() < 0.4, "later_token": rng.random() < 0.1}
        if rng.random() < 0.06:
            kn[rng.choice(["no_took", "no_total"])] = True
        docs = []
        for k in range(npages):
            last = k == npages - 1
            nh = 0 if (last and k > 0 and rng.random() < 0.8) else rng.choice([1, 2, 3])
            if k == 0 and total == 0:
                nh = 0
            docs.append(gen_search_doc(rng, kn, nhits=nh, total=total, scroll=True, with_sort=False))
        yield {"docs": docs, "style": gen_style(rng, 0.6), "size": size, "pages": pages_param, "knobs": kn}


def oracle_scroll(fulls, size, pages_param):
    total_pages = None if pages_param == "all" else int(pages_param)
    if total_pages == 0:
        return {"pages": 0}
    f0 = fulls[0]
    tot = f0["hits"]["total"]
    hits = tot["value"] if isinstance(tot, dict) else tot
    rel = tot["relation"] if isinstance(tot, dict) else "eq"
    took, timed_out, pages = f0["took"], f0["timed_out"], 1
    done = (size is not None and hits < size) or hits == 0
    k = 1
    while not done and (total_pages is None or pages < total_pages):
        if k >= len(fulls):
            return {"err": "Exhausted"}
        f = fulls[k]
        took += f["took"]
        timed_out = timed_out or f["timed_out"]
        pages += 1
        done = len(f["hits"]["hits"]) == 0
        k += 1
    return {"weight": pages, "pages": pages, "hits": hits, "hits_relation": rel, "unit": "pages", "timed_out": timed_out, "took": took}


def run_scroll(ctx, case, env=None):
    env = env if env is not None else {}
    texts, fulls = [], []
    for d in case["docs"]:
        t, _ = render(ctx, d, case["style"])
        texts.append(t)
        fulls.append(check_render(ctx, d, t))
    pages_n = BIG if case["pages"] == "all" else int(case["pages"])
    m = ctx.model("jsonfast", "scroll_query", {"docs": case["docs"], "size": case["size"], "pages": pages_n})
    params = env.get("params")
    if params is None:
        params = {"operation-type": "scroll-search", "index": "idx", "body": {"query": {"match_all": {}}}, "pages": case["pages"]}
        if case["size"] is not None:
            params["results-per-page"] = case["size"]
        env["params"] = params
    i, es = run_query(params, texts, registered=env.get("runner"))
    mm = m_except(m["r"], lambda r: {"weight": r["pages"], "pages": r["pages"], "hits": canon(m_val(r["hits"])), "hits_relation": canon(m_val(r["hits_relation"])),
                                      "unit": "pages", "timed_out": canon(m_val(r["timed_out"])), "took": canon(m_val(r["took"]))})
    ii = m_except(i, lambda r: {k: (canon(v) if k in ("hits", "hits_relation", "timed_out", "took") else v) for k, v in r.items()})
    if m["r"].get("err") == "Unsupported":
        ctx.count("out-of-model")
    elif mm != ii:
        ctx.diff("scroll-query", mm, ii)
    if "ok" in m["r"]:
        sid = m_val(m["r"]["ok"]["scroll_id"])
        sent = [r["body"]["scroll_id"] for r in es.requests if r["path"] == "/_search/scroll"]
        if any(x != sid for x in sent) or (bool(sid) != bool(es.cleared)):
            ctx.diff("scroll-id-use", canon(sid), [sent, es.cleared])
    in_shape = not case["knobs"].get("no_took") and not case["knobs"].get("no_total")
    if in_shape:
        exp = oracle_scroll(fulls, case["size"], case["pages"])
        if "err" in exp:
            if i.get("err") != exp["err"]:
                ctx.fail("scroll-accounting", "scroll query should have requested a further page", exp, ii)
        elif "ok" not in i or loose(i["ok"]) != loose(exp):
            ctx.fail("scroll-accounting", "pages / hits / took / timed_out differ from full parsing of the pages", loose(exp), ii)
    ctx.sig([m.get("tags"), case["size"] is None, case["pages"] == "all", min(len(case["docs"]), 3), in_shape,
             ("ok" in i and i["ok"]["pages"])], nontrivial=len(case["docs"]) > 1)


def gen_sa(ctx):
    rng = ctx.rng
    for _ in range(ctx.budget):
        size = rng.choice([1, 2, 3, 10])
        npages = rng.choice([1, 2, 3, 4])
        total = rng.choice([0, 1, size, size + 1, 2 * size, 2 * size + 1, 3 * size, 10000])
        pages_param = rng.choice(["all", "all", 1, 2, 3, 5])
        pit = rng.random() < 0.35
        r = rng.random()
        kn = {"shuffle": 0.0, "adversarial_source": rng.random() < 0.4, "cls": "clean"}
        if r < 0.1:
            kn.update(bracket=True, cls="bracket")
        elif r < 0.16:
            kn.update(later_token=True, cls="later")
        elif r < 0.22:
            kn.update(shuffle=0.6, cls="shuffle")
        if rng.random() < 0.05:
            kn[rng.choice(["no_took", "no_total"])] = True
        es6 = rng.random() < 0.2
        docs = [gen_search_doc(rng, kn, nhits=rng.choice([1, 2, size]), total=total, es6=es6, pit=pit and rng.random() < 0.97) for _ in range(npages)]
        style = gen_style(rng, 0.85)
        yield {"docs": docs, "style": style, "size": size, "pages": pages_param, "pit": pit, "knobs": kn}


def run_sa(ctx, case, env=None):
    env = env if env is not None else {}
    texts, fulls = [], []
    for d in case["docs"]:
        t, _ = render(ctx, d, case["style"])
        texts.append(t)
        fulls.append(check_render(ctx, d, t))
    pages_n = BIG if case["pages"] == "all" else int(case["pages"])
    pit = case["pit"]
    mfull = ctx.model("jsonfast", "sa_query", {"docs": case["docs"], "style": case["style"], "pit": pit, "size": case["size"], "pages": pages_n,
                                               "left": env.get("left")})
    m = {"r": mfull["r"]["res"], "tags": mfull.get("tags")}
    params = env.get("params")
    if params is None:
        params = {"operation-type": "paginated-search", "index": "idx", "body": {"query": {"match_all": {}}, "sort": [{"ts": "asc"}]},
                  "pages": case["pages"], "results-per-page": case["size"]}
        if pit:
            params["with-point-in-time-from"] = "open-pit"
        env["params"] = params
    i, es = run_query(params, texts, pit_id="pit-0" if pit else None, registered=env.get("runner"))
    # state carried in the shared request body: cursor of the first request / cursor left behind
    if es.requests:
        first = es.requests[0]["body"].get("search_after", ABSENT)
        mfirst = box_py(mfull["r"]["first"], lambda v: None if v is None else m_doc(v))
        if canon(first) != canon(mfirst):
            ctx.diff("search-after-first-request-cursor", canon(mfirst), canon(first))
    if "ok" in m["r"] and "ok" in i:
        left_now = params["body"].get("search_after", ABSENT)
        mleft = box_py(mfull["r"]["left_after"], lambda v: None if v is None else m_doc(v))
        if canon(json.loads(json.dumps(left_now, default=_ser))) != canon(mleft):
            ctx.diff("search-after-cursor-left-in-body", canon(mleft), canon(left_now))
        env["left"] = box_in(mfull["r"]["left_after"])
        if env["left"] is not None:
            ctx.count("outside-property:cursor-left-in-shared-body")
    else:
        env["reset"] = True

    def mconv(r):
        if r["pages"] == 0:
            return {"unit": "pages", "success": True, "timed_out": canon(False), "took": canon(0)}
        return {"unit": "pages", "success": True, "pages": r["pages"], "weight": r["pages"], "hits": canon(m_val(r["hits"])),
                "hits_relation": canon(m_val(r["hits_relation"])), "took": canon(int(r["took"])), "timed_out": canon(m_val(r["timed_out"]))}

    mm = m_except(m["r"], mconv)
    ii = m_except(i, lambda r: {k: (canon(v) if k in ("hits", "hits_relation", "timed_out", "took") else v) for k, v in r.items()})
    if m["r"].get("err") == "Unsupported":
        ctx.count("out-of-model")
    elif mm != ii:
        ctx.diff("search-after-query", mm, ii)
    sent_cursors = [canon(r["body"].get("search_after")) for r in es.requests[1:]]
    sent_pits = [r["body"].get("pit", {}).get("id") for r in es.requests] if pit else []
    if "ok" in m["r"]:
        mc = [canon(None if c is None else m_doc(c[0])) for c in m["r"]["ok"]["cursors"]]
        # a cursor assigned after the last fetched page is never sent
        if mc[:len(sent_cursors)] != sent_cursors or len(mc) - len(sent_cursors) not in (0, 1):
            ctx.diff("search-after-cursors", mc, sent_cursors)
        if pit:
            mp = ["pit-0"] + [m_val(x) for x in m["r"]["ok"]["pit_ids"]]
            if mp[:len(sent_pits)] != sent_pits:
                ctx.diff("pit-ids", mp, sent_pits)
    # direct oracle: every cursor sent is the sort value of the last hit of the previous page; accounting as full parsing
    in_shape = not case["knobs"].get("no_took") and not case["knobs"].get("no_total") and all((not pit) or f.get("pit_id") for f in fulls)
    if in_shape:
        for k, c in enumerate(sent_cursors):
            exp = expected_last_sort(fulls[k])
            if c != canon(exp):
                report_cursor(ctx, classify_cursor(texts[k], fulls[k], case["style"]), "search_after sent with the next request differs from the sort value of the last hit", canon(exp), c)
        if "err" in i and i["err"] == "JSONDecodeError":
            k = len(es.requests) - 1
            report_cursor(ctx, classify_cursor(texts[k], fulls[k], case["style"]), "cursor extraction raises JSONDecodeError", canon(expected_last_sort(fulls[k])), i)
        elif "ok" in i:
            tot = fulls[0]["hits"]["total"]
            hits = tot["value"] if isinstance(tot, dict) else tot
            rel = tot["relation"] if isinstance(tot, dict) else "eq"
            total_pages = None if case["pages"] == "all" else int(case["pages"])
            pages = 1
            while hits > pages * case["size"] and (total_pages is None or pages < total_pages):
                pages += 1
            exp = {"unit": "pages", "success": True, "pages": pages, "weight": pages, "hits": hits, "hits_relation": rel,
                   "took": sum(f["took"] for f in fulls[:pages]), "timed_out": any(f["timed_out"] for f in fulls[:pages])}
            if pages > len(fulls):
                ctx.fail("search-after-accounting", "a further page should have been requested", "Exhausted", ii)
            elif loose(i["ok"]) != loose(exp):
                ctx.fail("search-after-accounting", "pages / hits / took / timed_out differ from full parsing of the pages", loose(exp), ii)
            if pit and sent_pits != (["pit-0"] + [f["pit_id"] for f in fulls])[:len(sent_pits)]:
                ctx.fail("pit-id-chain", "pit id sent differs from the pit id of the previous response", None, sent_pits)
        elif i["err"] == "Exhausted":
            tot = fulls[0]["hits"]["total"]
            hits = tot["value"] if isinstance(tot, dict) else tot
            if not hits > len(fulls) * case["size"]:
                ctx.fail("search-after-accounting", "requested a page beyond the hits", None, ii)
    ctx.count("cls:" + case["knobs"]["cls"])
    ctx.sig([m.get("tags"), case["knobs"]["cls"], pit, case["pages"] == "all", min(len(case["docs"]), 3), in_shape,
             ("ok" in i and i["ok"].get("pages"))], nontrivial=len(case["docs"]) > 1)


def comp_body(path):
    node = {"composite": {"sources": [{"product": {"terms": {"field": "product"}}}]}}
    for name in reversed(path):
        node = {"aggs": {name: node}} if "composite" in node else {"filter": {"match_all": {}}, "aggs": {name: node}}
    if "filter" in node:
        node = {"aggs": node["aggs"]}
    node["query"] = {"match_all": {}}
    return node


def gen_ca(ctx):
    rng = ctx.rng
    for _ in range(ctx.budget):
        path = rng.choice([["c"], ["f", "c"], ["a", "b", "c"]])
        npages = rng.choice([1, 2, 3, 4])
        pages_param = rng.choice(["all", "all", 1, 2, 3])
        pit = rng.random() < 0.3
        kn = {"nulls": rng.random() < 0.15, "shuffle": rng.choice([0.0, 0.0, 0.6])}
        docs = [gen_composite_doc(rng, path, kn, last=(k == npages - 1 and rng.random() < 0.8), total=5, pit=pit) for k in range(npages)]
        yield {"docs": docs, "style": gen_style(rng, 0.6), "path": path, "pages": pages_param, "pit": pit, "knobs": kn}


def dig_after(body, path):
    node = body
    for name in path:
        node = (node.get("aggs") or node.get("aggregations"))[name]
    return node["composite"].get("after", ABSENT)


def run_ca(ctx, case, env=None):
    env = env if env is not None else {}
    texts, fulls = [], []
    for d in case["docs"]:
        t, _ = render(ctx, d, case["style"])
        texts.append(t)
        fulls.append(check_render(ctx, d, t))
    path, pit = case["path"], case["pit"]
    pages_n = BIG if case["pages"] == "all" else int(case["pages"])
    mfull = ctx.model("jsonfast", "ca_query", {"docs": case["docs"], "pit": pit, "path": path, "pages": pages_n, "left": env.get("left")})
    m = {"r": mfull["r"]["res"], "tags": mfull.get("tags")}
    params = env.get("params")
    if params is None:
        params = {"operation-type": "composite-agg", "index": "idx", "body": comp_body(path), "pages": case["pages"]}
        if pit:
            params["with-point-in-time-from"] = "open-pit"
        env["params"] = params
    i, es = run_query(params, texts, pit_id="pit-0" if pit else None, registered=env.get("runner"))
    if es.requests:
        first = dig_after(es.requests[0]["body"], path)
        mfirst = box_py(mfull["r"]["first"], m_val)
        if loose(first) != loose(mfirst):
            ctx.diff("composite-first-request-after", loose(mfirst), loose(first))
    if "ok" in m["r"] and "ok" in i:
        left_now = dig_after(params["body"], path)
        mleft = box_py(mfull["r"]["left_after"], m_val)
        if loose(left_now) != loose(mleft):
            ctx.diff("composite-after-left-in-body", loose(mleft), loose(left_now))
        env["left"] = box_in(mfull["r"]["left_after"])
        if env["left"] is not None:
            ctx.count("outside-property:cursor-left-in-shared-body")
    else:
        env["reset"] = True

    def mconv(r):
        if r["pages"] == 0:
            return {"unit": "pages", "success": True, "timed_out": canon(False), "took": canon(0)}
        return {"unit": "pages", "success": True, "pages": r["pages"], "weight": r["pages"], "hits": canon(m_val(r["hits"])),
                "hits_relation": canon(m_val(r["hits_relation"])), "took": canon(int(r["took"])), "timed_out": canon(m_val(r["timed_out"]))}

    mm = m_except(m["r"], mconv)
    ii = m_except(i, lambda r: {k: (canon(v) if k in ("hits", "hits_relation", "timed_out", "took") else v) for k, v in r.items()})
    if mm != ii:
        ctx.diff("composite-query", mm, ii)
    sent_after = [dig_after(r["body"], path) for r in es.requests[1:]]
    if "ok" in m["r"]:
        ma = [loose(m_val(a)) for a in m["r"]["ok"]["afters"]]
        if ma[:len(sent_after)] != [loose(a) for a in sent_after] or len(ma) - len(sent_after) not in (0, 1):
            ctx.diff("composite-afters", ma, [loose(a) for a in sent_after])
    for k, a in enumerate(sent_after):
        found, ak = walk(fulls[k], "aggregations." + ".".join(path) + ".after_key")
        if not found or loose(a) != loose(ak):
            cls = "after-key-null-dropped" if (found and any(v is None for v in ak.values())) else "after-key-differs"
            ctx.fail(cls, "`after` sent with the next request differs from the after_key of the previous response", loose(ak), loose(a))
    if "ok" in i and all((not pit) or f.get("pit_id") for f in fulls):
        pages = 1
        total_pages = None if case["pages"] == "all" else int(case["pages"])
        while pages <= len(fulls) and walk(fulls[pages - 1], "aggregations." + ".".join(path) + ".after_key")[0] and (total_pages is None or pages < total_pages):
            pages += 1
        tot = fulls[0]["hits"]["total"]
        exp = {"unit": "pages", "success": True, "pages": pages, "weight": pages, "hits": tot["value"] if isinstance(tot, dict) else tot,
               "hits_relation": tot["relation"] if isinstance(tot, dict) else "eq",
               "took": sum(f["took"] for f in fulls[:pages]), "timed_out": any(f["timed_out"] for f in fulls[:pages])}
        if pages > len(fulls) or loose(i["ok"]) != loose(exp):
            ctx.fail("composite-accounting", "pages / hits / took / timed_out differ from full parsing of the pages", loose(exp), ii)
    ctx.sig([m.get("tags"), len(path), pit, case["pages"] == "all", min(len(case["docs"]), 3), case["knobs"]["nulls"],
             ("ok" in i and i["ok"].get("pages"))], nontrivial=len(case["docs"]) > 1)


def gen_rb(ctx):
    rng = ctx.rng
    for _ in range(ctx.budget):
        kn = {"shuffle": rng.choice([0.0, 0.6]), "adversarial_source": rng.random() < 0.5, "later_token": rng.random() < 0.1, "aggs_after": rng.random() < 0.2}
        if rng.random() < 0.1:
            kn[rng.choice(["no_took", "no_total"])] = True
        yield {"doc": gen_search_doc(rng, kn), "style": gen_style(rng, 0.5), "knobs": kn}


def run_rb(ctx, case, env=None):
    env = env if env is not None else {}
    text, _ = render(ctx, case["doc"], case["style"])
    full = check_render(ctx, case["doc"], text)
    m = ctx.model("jsonfast", "rb_detailed", {"doc": case["doc"]})
    params = env.get("params")
    if params is None:
        params = {"operation-type": "search", "index": "idx", "body": {"query": {"match_all": {}}}, "detailed-results": True}
        env["params"] = params
    i, _es = run_query(params, [text], registered=env.get("runner"))
    r = m["r"]
    mm = {"ok": {"weight": 1, "unit": "ops", "success": True, "hits": canon(m_val(r["hits"])), "hits_relation": canon(m_val(r["hits_relation"])),
                 "timed_out": canon(m_val(r["timed_out"])), "took": canon(m_val(r["took"])),
                 "shards": {k: canon(m_val(r[k])) for k in ("total", "successful", "skipped", "failed")}}}
    ii = m_except(i, lambda x: {k: (canon(v) if k in ("hits", "hits_relation", "timed_out", "took") else ({a: canon(b) for a, b in v.items()} if k == "shards" else v)) for k, v in x.items()})
    if mm != ii:
        ctx.diff("request-body-detailed", mm, ii)
    if "ok" in i and full is not None:
        tot = full["hits"].get("total", 0)
        sh = full.get("_shards", {})
        exp = {"weight": 1, "unit": "ops", "success": True, "hits": tot["value"] if isinstance(tot, dict) else tot,
               "hits_relation": tot["relation"] if isinstance(tot, dict) else "eq", "timed_out": full.get("timed_out", False), "took": full.get("took", 0),
               "shards": {k: sh.get(k, 0) for k in ("total", "successful", "skipped", "failed")}}
        if loose(i["ok"]) != loose(exp):
            ctx.fail("request-body-props", "detailed search meta-data differ from full parsing", loose(exp), loose(i["ok"]))
    ctx.sig([sorted(k for k in case["knobs"] if case["knobs"][k]), isinstance(full and full["hits"].get("total"), dict), "_shards" in (full or {})], nontrivial=True)


# ---------------------------------------------------------------------------------------------
# stream 7: raw texts — rfind / regex / json.loads models on mutated (also ill-formed) texts
# ---------------------------------------------------------------------------------------------
SNIPS = ['"sort":', '"sort" :', 'sort":[1]', '"sort":[', "]", "[", '"sort"', '{"sort":[1,"a"]}', '"resort":[2]', " ", "\n", '"', "\\", ",", "}", "{", ":",
         '"sort":["a]b"]', '"sort":[[1],2]', '"sort":{"a":[1]}', '"sort":"x"', "null", "1.5e3", "-", "NaN", "\\u00e9", "\\ud83d\\ude00", "tru", "01", "1.", "é", "\t",
         "\\ud83d", "\\n", "\\x", "Infinity", "-Infinity", "1e", "1e+", "0.5.", "[1,]", "[,1]", '{"a" 1}', "\x01"]


def gen_text(ctx):
    rng = ctx.rng
    for _ in range(ctx.budget):
        kn = gen_cursor_knobs(rng)
        doc = gen_search_doc(rng, kn) if rng.random() < 0.7 else gen_value(rng, 0, 0.7)
        yield {"doc": doc, "style": gen_style(rng, 0.5), "muts": [[rng.random(), rng.choice(SNIPS), rng.randrange(3)] for _ in range(rng.randrange(0, 4))],
               "loads_slice": [rng.random(), rng.random()]}


def mutate(text, muts):
    for pos, snip, kind in muts:
        i = int(pos * (len(text) + 1))
        if kind == 0:
            text = text[:i] + snip + text[i:]
        elif kind == 1:
            text = text[:i] + text[i + len(snip):]
        else:
            text = text[:i]
    return text


def run_text(ctx, case):
    from esrally.driver import runner

    text, _ = render(ctx, case["doc"], case["style"])
    text = mutate(text, case["muts"])
    m = ctx.model("jsonfast", "last_sort_text", {"text": text})
    ex = runner.SearchAfterExtractor()
    i = impl_call(lambda: ex._get_last_sort(io.BytesIO(text.encode("utf-8"))))
    if m["r"].get("err") == "Unsupported":
        ctx.count("out-of-model:last_sort")
    else:
        mm = m_except(m["r"], lambda r: canon(None if r is None else m_doc(r[0])))
        ii = m_except(i, canon)
        if mm != ii:
            ctx.diff("last-sort-text", mm, ii)
    a, b = sorted(case["loads_slice"])
    sub = text if not case["muts"] else text[int(a * len(text)):int(b * (len(text) + 1))]
    m2 = ctx.model("jsonfast", "json_loads", {"text": sub})
    i2 = impl_call(lambda: json.loads(sub))
    if m2["r"].get("err") == "Unsupported":
        ctx.count("out-of-model:json_loads")
    else:
        mm2 = m_except(m2["r"], lambda r: canon(m_doc(r)))
        ii2 = m_except(i2, canon)
        if mm2 != ii2:
            ctx.diff("json-loads", mm2, ii2)
    ctx.sig([m.get("tags"), m2.get("tags"), len(case["muts"])], nontrivial=True)


# ---------------------------------------------------------------------------------------------
# stream 8: SEQUENCES of calls on the SAME extractor / BulkIndex instance (state carried between calls)
# every call must equal the model's answer for that call alone (theorems *_session: a session is the map of the
# independent calls) and the full-parse oracle of that call
# ---------------------------------------------------------------------------------------------
def gen_extractor_sessions(ctx):
    rng = ctx.rng
    for _ in range(ctx.budget):
        kind = rng.choice(["cax", "cax", "sax", "bulk", "parse"])
        n = rng.choice([2, 2, 3, 4, 5])
        style = gen_style(rng, 0.7)
        calls = []
        for _k in range(n):
            if kind == "cax":
                c = make_composite(rng)
            elif kind == "sax":
                c = make_cursor(rng)
            elif kind == "bulk":
                c = make_bulk(rng)
                c["detailed"] = rng.random() < 0.5
            else:
                c = make_parse(rng)
            c["style"] = style
            calls.append(c)
        yield {"kind": kind, "style": style, "calls": calls}


def run_extractor_session(ctx, case):
    from esrally.driver import runner

    kind, calls = case["kind"], case["calls"]
    got = []
    if kind == "cax":
        ex = runner.CompositeAggExtractor()
        for c in calls:
            got.append(run_composite(ctx, c, ex))
        m = ctx.model("jsonfast", "cax_session", {"calls": [{"doc": c["doc"], "pit": c["pit"], "path": c["path"], "hits_total": c["hits_total"]} for c in calls]})
        exp = [m_except(r, lambda x: canon(m_dict(x))) for r in m["r"]]
    elif kind == "sax":
        ex = runner.SearchAfterExtractor()
        for c in calls:
            got.append(run_cursor(ctx, c, ex))
        m = ctx.model("jsonfast", "sax_session", {"style": case["style"], "calls": [{"doc": c["doc"], "pit": c["pit"], "hits_total": c["hits_total"]} for c in calls]})
        exp = [m_except(r, conv_sax_model) for r in m["r"]]
    elif kind == "bulk":
        b = runner.BulkIndex()
        for c in calls:
            r = run_bulk(ctx, c, b)
            got.append(None if r is None else r.get("detailed" if c["detailed"] else "simple"))
        m = ctx.model("jsonfast", "bulk_session", {"calls": [{"doc": c["doc"], "detailed": c["detailed"], "bulk_size": c["bulk_size"], "unit_docs": c["unit_docs"]} for c in calls]})
        exp = [m_except(r, stats_canon_model) for r in m["r"]]
    else:
        for c in calls:
            got.append(run_parse(ctx, c))
        m = ctx.model("jsonfast", "parse_session", {"calls": [{"doc": c["doc"], "props": c["props"], "lists": c["lists"], "objs": c["objs"]} for c in calls]})
        exp = [canon(m_dict(r)) for r in m["r"]]
    for k, (g, e) in enumerate(zip(got, exp)):
        if g is None or (isinstance(e, dict) and e.get("err") == "Unsupported"):
            continue
        if g != e:
            ctx.diff(f"session-{kind}-call-{k}", e, g)
    varied = len({json.dumps([c.get("path"), c.get("pit"), c.get("hits_total") is None, c.get("detailed"), c.get("props")], sort_keys=True) for c in calls})
    ctx.count("session:" + kind)
    ctx.sig([kind, len(calls), min(varied, 3)], nontrivial=varied > 1)


# ---------------------------------------------------------------------------------------------
# stream 9: the runners Rally REGISTERS (one instance per operation type), driven as the driver does, through
# several invocations of several tasks that share the instance; every task keeps its own params dict / request
# body across invocations (as SearchParamSource does)
# ---------------------------------------------------------------------------------------------
def make_ops(rng, style):
    ops = []
    paths = [["c"], ["f", "c"], ["my_agg"], ["a", "b", "c"], ["c2"]]
    rng.shuffle(paths)
    ncomp = rng.choice([0, 1, 2, 2, 2, 3])
    for k in range(ncomp):
        ops.append({"type": "composite-agg", "path": paths[k], "pit": rng.random() < 0.3, "pages": rng.choice(["all", "all", 1, 2, 3]), "style": style})
    for _ in range(rng.choice([0, 1, 2])):
        ops.append({"type": "paginated-search", "pit": rng.random() < 0.35, "size": rng.choice([1, 2, 3, 10]), "pages": rng.choice(["all", 1, 2, 3]), "style": style})
    if rng.random() < 0.4:
        ops.append({"type": "scroll-search", "size": rng.choice([None, 1, 2, 10]), "pages": rng.choice(["all", 1, 2, 3]), "style": style})
    if rng.random() < 0.4:
        ops.append({"type": "search", "style": style})
    if rng.random() < 0.5 or not ops:
        ops.append({"type": "bulk", "style": style})
    return ops


def make_invocation(rng, op):
    t = op["type"]
    if t == "composite-agg":
        npages = rng.choice([1, 2, 3, 4])
        kn = {"nulls": rng.random() < 0.15, "shuffle": rng.choice([0.0, 0.0, 0.6])}
        docs = [gen_composite_doc(rng, op["path"], kn, last=(k == npages - 1 and rng.random() < 0.8), total=5, pit=op["pit"]) for k in range(npages)]
        return {"docs": docs, "style": op["style"], "path": op["path"], "pages": op["pages"], "pit": op["pit"], "knobs": kn}
    if t == "paginated-search":
        size = op["size"]
        npages = rng.choice([1, 2, 3, 4])
        total = rng.choice([0, 1, size, size + 1, 2 * size, 2 * size + 1, 3 * size, 10000])
        kn = {"shuffle": 0.0, "adversarial_source": rng.random() < 0.4, "cls": "clean"}
        if rng.random() < 0.1:
            kn.update(later_token=True, cls="later")
        docs = [gen_search_doc(rng, kn, nhits=rng.choice([1, 2, size]), total=total, es6=False, pit=op["pit"]) for _ in range(npages)]
        return {"docs": docs, "style": op["style"], "size": size, "pages": op["pages"], "pit": op["pit"], "knobs": kn}
    if t == "scroll-search":
        npages = rng.choice([1, 2, 3])
        total = rng.choice([0, 1, 3, 25])
        kn = {"shuffle": 0.0, "adversarial_source": rng.random() < 0.3}
        docs = []
        for k in range(npages):
            nh = 0 if ((k == npages - 1 and k > 0 and rng.random() < 0.8) or (k == 0 and total == 0)) else rng.choice([1, 2, 3])
            docs.append(gen_search_doc(rng, kn, nhits=nh, total=total, scroll=True, with_sort=False))
        return {"docs": docs, "style": op["style"], "size": op["size"], "pages": op["pages"], "knobs": kn}
    if t == "search":
        kn = {"shuffle": rng.choice([0.0, 0.6]), "adversarial_source": rng.random() < 0.5}
        return {"doc": gen_search_doc(rng, kn), "style": op["style"], "knobs": kn}
    c = make_bulk(rng)
    c["style"] = op["style"]
    c["detailed"] = rng.random() < 0.5
    return c


def gen_query_sessions(ctx):
    rng = ctx.rng
    for _ in range(ctx.budget):
        style = gen_style(rng, 0.85)
        if style.get("before_colon"):
            style = {}
        ops = make_ops(rng, style)
        n = rng.choice([2, 3, 4, 5, 6])
        order = [k % len(ops) for k in range(n)] if rng.random() < 0.5 else [rng.randrange(len(ops)) for _ in range(n)]
        yield {"ops": ops, "seq": [{"op": k, "inv": make_invocation(rng, ops[k])} for k in order]}


def run_bulk_runner(ctx, case, env):
    """BulkIndex.__call__ of the registered runner (detailed-results on / off) against the stats it must report"""
    text, _ = render(ctx, case["doc"], case["style"])
    check_render(ctx, case["doc"], text)
    unit = "docs" if case["unit_docs"] else "pages"
    params = {"body": "{}\n{}", "bulk-size": case["bulk_size"], "unit": unit, "action-metadata-present": True, "index": "idx",
              "detailed-results": case["detailed"]}
    i, _es = run_query(params, [text], registered=env.get("runner"))
    m = ctx.model("jsonfast", "bulk", {"doc": case["doc"], "bulk_size": case["bulk_size"], "unit_docs": case["unit_docs"]})
    mod = m["r"]["detailed" if case["detailed"] else "simple"]
    if mod.get("err") == "Unsupported":
        ctx.count("out-of-model:bulk-runner")
        return
    mm = m_except(mod, stats_canon_model)
    if "ok" in mm and not mm["ok"]["success"]:
        mm["ok"]["error-type"] = "bulk"
    if "ok" in mm:
        mm["ok"].update(index="idx", weight=case["bulk_size"], unit=unit)
        if mod["ok"]["description"] is not None:
            mm["ok"]["error-description"] = dec(mod["ok"]["description"])
    ii = m_except(i, lambda r: dict(stats_canon_impl(r), index=r.get("index"), weight=r.get("weight"), unit=r.get("unit"),
                                    **({"error-type": r["error-type"]} if "error-type" in r else {}),
                                    **({"error-description": r["error-description"]} if "error-description" in r else {})))
    if mm != ii:
        ctx.diff("bulk-runner-call", mm, ii)


def run_query_session(ctx, case):
    from esrally.driver import runner

    runner.register_default_runners()
    envs = [{"runner": runner.runner_for(op["type"])} for op in case["ops"]]
    seen = []
    for step in case["seq"]:
        op, env, inv = case["ops"][step["op"]], envs[step["op"]], step["inv"]
        t = op["type"]
        if t == "composite-agg":
            run_ca(ctx, inv, env)
        elif t == "paginated-search":
            run_sa(ctx, inv, env)
        elif t == "scroll-search":
            run_scroll(ctx, inv, env)
        elif t == "search":
            run_rb(ctx, inv, env)
        else:
            run_bulk(ctx, inv)
            run_bulk_runner(ctx, inv, env)
        if env.pop("reset", False):
            # an invocation that raised leaves the body in a state that is not modelled: the task gets fresh parameters
            env.pop("params", None)
            env["left"] = None
        seen.append(t + ":" + ".".join(op.get("path", [])))
    ctx.sig([sorted(set(seen)), len(case["seq"])], nontrivial=len(set(seen)) > 1)
    ctx.count("query-session-ops:" + str(len(set(seen))))


# ---------------------------------------------------------------------------------------------
# stream 10: several paginated searches IN FLIGHT TOGETHER on the runner Rally registers for the operation type (one
# shared Query object for all clients / parallel tasks / composite streams of a worker): the fake endpoint suspends at
# every page request, so the searches interleave at each `await`; every search must end as the model says for its OWN
# parameters (theorem searches_in_flight_independent; the model is run under the schedule that was observed) and as
# full parsing of its own pages says
# ---------------------------------------------------------------------------------------------
class SuspendingEs(FakeEs):
    def __init__(self, texts, idx, log, delays):
        super().__init__(texts)
        self.idx, self.log, self.delays = idx, log, list(delays)

    async def perform_request(self, method=None, path=None, params=None, body=None, headers=None, **kw):
        self.requests.append({"path": path, "body": json.loads(json.dumps(body, default=_ser)) if body is not None else None})
        for _ in range(self.delays.pop(0) if self.delays else 1):
            await asyncio.sleep(0)
        self.log.append(self.idx)
        if not self.texts:
            raise Exhausted()
        return io.BytesIO(self.texts.pop(0).encode("utf-8"))


def pages_needed(total, size, pages_param):
    need = 1
    while total > need * size:
        need += 1
    return need if pages_param == "all" else min(need, int(pages_param))


def gen_concurrent(ctx):
    rng = ctx.rng
    for _ in range(ctx.budget):
        style = gen_style(rng, 0.9)
        if style.get("before_colon"):
            style = {}
        n = rng.choice([2, 2, 3, 4])
        same_size = rng.random() < 0.15
        size0 = rng.choice([1, 2, 3, 5, 10, 100])
        searches = []
        for _k in range(n):
            size = size0 if same_size else rng.choice([1, 2, 3, 5, 10, 100])
            total = rng.choice([0, 1, size - 1, size, size + 1, 2 * size, 2 * size + 1, 3 * size, 4 * size + 1, 7, 30, 10000])
            pages_param = rng.choice(["all", "all", "all", 1, 2, 3, 5])
            npages = min(pages_needed(total, size, pages_param), 6) + rng.choice([0, 0, 1])
            if rng.random() < 0.1:
                npages = max(1, npages - 1)
            pit = rng.random() < 0.25
            kn = {"shuffle": 0.0, "adversarial_source": rng.random() < 0.3, "cls": "clean"}
            docs = [gen_search_doc(rng, kn, nhits=rng.choice([1, 2, min(size, 3)]), total=total, es6=rng.random() < 0.15, pit=pit) for _ in range(npages)]
            searches.append({"docs": docs, "size": size, "pages": pages_param, "pit": pit, "knobs": kn,
                             "start_delay": rng.choice([0, 0, 1, 2, 3]), "delays": [rng.choice([1, 1, 2, 3]) for _ in range(npages + 2)]})
        yield {"style": style, "searches": searches}


def oracle_sa(fulls, size, pages_param):
    """pages / hits / took / timed_out of one paginated search, from full parsing of its own pages"""
    tot = fulls[0]["hits"]["total"]
    hits = tot["value"] if isinstance(tot, dict) else tot
    rel = tot["relation"] if isinstance(tot, dict) else "eq"
    pages = pages_needed(hits, size, pages_param)
    if pages > len(fulls):
        return {"err": "Exhausted"}
    return {"ok": {"unit": "pages", "success": True, "pages": pages, "weight": pages, "hits": hits, "hits_relation": rel,
                   "took": sum(f["took"] for f in fulls[:pages]), "timed_out": any(f["timed_out"] for f in fulls[:pages])}}


def sa_mconv(r):
    if r["pages"] == 0:
        return {"unit": "pages", "success": True, "timed_out": canon(False), "took": canon(0)}
    return {"unit": "pages", "success": True, "pages": r["pages"], "weight": r["pages"], "hits": canon(m_val(r["hits"])),
            "hits_relation": canon(m_val(r["hits_relation"])), "took": canon(int(r["took"])), "timed_out": canon(m_val(r["timed_out"]))}


def run_concurrent(ctx, case):
    from esrally.driver import runner

    runner.register_default_runners()
    registered = runner.runner_for("paginated-search")
    style, searches = case["style"], case["searches"]
    texts, fulls = [], []
    for sc in searches:
        ts = [render(ctx, d, style)[0] for d in sc["docs"]]
        texts.append(ts)
        fulls.append([check_render(ctx, d, t) for d, t in zip(sc["docs"], ts)])
    log = []
    ess = [SuspendingEs(texts[k], k, log, sc["delays"]) for k, sc in enumerate(searches)]

    async def one(k):
        sc = searches[k]
        params = {"operation-type": "paginated-search", "index": "idx-%d" % k, "body": {"query": {"match_all": {}}, "sort": [{"ts": "asc"}]},
                  "pages": sc["pages"], "results-per-page": sc["size"]}
        if sc["pit"]:
            params["with-point-in-time-from"] = "open-pit"
        for _ in range(sc["start_delay"]):
            await asyncio.sleep(0)

        async def call():
            async with registered:
                return await registered({"default": ess[k]}, params)

        try:
            if sc["pit"]:
                async with runner.CompositeContext():
                    runner.CompositeContext.put("open-pit", "pit-0")
                    return {"ok": await call()}
            return {"ok": await call()}
        except Exception as e:  # noqa
            return {"err": type(e).__name__}

    async def go():
        return await asyncio.gather(*[one(k) for k in range(len(searches))])

    loop = asyncio.new_event_loop()
    try:
        results = loop.run_until_complete(go())
    except Exception as e:  # noqa
        ctx.diff("concurrent-searches-crashed", "every search ends with a result or its own error", f"{type(e).__name__}: {e}")
        return
    finally:
        loop.close()
    overlapped = any(log[k] != log[k + 1] and log[k] in log[k + 1:] for k in range(len(log) - 1))
    # the model under the schedule that was observed (+ a fair tail; finished searches ignore further quanta)
    sched = list(log) + [k for k in range(len(searches)) for _ in range(len(searches[k]["docs"]) + 1)]
    m = ctx.model("jsonfast", "sa_concurrent", {"style": style, "sched": sched, "calls": [
        {"docs": sc["docs"], "pit": sc["pit"], "size": sc["size"], "pages": BIG if sc["pages"] == "all" else int(sc["pages"])} for sc in searches]})
    sizes = sorted({sc["size"] for sc in searches})
    for k, sc in enumerate(searches):
        i, mr = results[k], m["r"][k]
        ii = m_except(i, lambda r: {a: (canon(v) if a in ("hits", "hits_relation", "timed_out", "took") else v) for a, v in r.items()})
        if "pending" in mr:
            ctx.diff(f"concurrent-search-{k}-model-unfinished", mr, ii)
        elif mr.get("err") == "Unsupported":
            ctx.count("out-of-model")
        elif m_except(mr, sa_mconv) != ii:
            ctx.diff(f"concurrent-search-{k}", m_except(mr, sa_mconv), ii)
        sent = [canon(r["body"].get("search_after")) for r in ess[k].requests[1:]]
        if "ok" in mr:
            mc = [canon(None if c is None else m_doc(c[0])) for c in mr["ok"]["cursors"]]
            if mc[:len(sent)] != sent or len(mc) - len(sent) not in (0, 1):
                ctx.diff(f"concurrent-search-{k}-cursors", mc, sent)
        if any(r["path"] != "/idx-%d/_search" % k for r in ess[k].requests if not sc["pit"]):
            ctx.diff(f"concurrent-search-{k}-path", "/idx-%d/_search" % k, [r["path"] for r in ess[k].requests])
        # direct oracle: the search alone, by full parsing of its own pages
        if all((not sc["pit"]) or f.get("pit_id") for f in fulls[k]):
            for j, c in enumerate(sent):
                if j < len(fulls[k]) and c != canon(expected_last_sort(fulls[k][j])):
                    report_cursor(ctx, classify_cursor(texts[k][j], fulls[k][j], style),
                                  "search_after sent with the next request differs from the sort value of the last hit",
                                  canon(expected_last_sort(fulls[k][j])), c)
            exp = oracle_sa(fulls[k], sc["size"], sc["pages"])
            got = {"ok": loose(i["ok"])} if "ok" in i else i
            want = {"ok": loose(exp["ok"])} if "ok" in exp else exp
            if got != want and i.get("err") != "JSONDecodeError":
                ctx.fail("concurrent-search-accounting",
                         f"search {k} (results-per-page {sc['size']}, pages {sc['pages']}) in flight together with searches of page sizes "
                         f"{[x['size'] for x in searches]} on the shared runner: pages / hits / took / timed_out differ from full parsing of its own pages",
                         want, ii)
    ctx.count("overlapped:" + str(overlapped))
    ctx.count("page-sizes-in-flight:" + str(min(len(sizes), 3)))
    ctx.sig([m.get("tags"), len(searches), min(len(sizes), 3), overlapped, sorted(("ok" in r and r["ok"].get("pages", 0)) for r in results)[:4]],
            nontrivial=overlapped and len(sizes) > 1)


STREAMS = [
    Stream("ijson_events", gen_events, run_events, quick=1500, thorough=150000),
    Stream("parse", gen_parse, run_parse, quick=2500, thorough=250000),
    Stream("bulk", gen_bulk, run_bulk, quick=2000, thorough=200000),
    Stream("bulk_malformed", gen_bulk_malformed, run_bulk, quick=600, thorough=40000, shards=4),
    Stream("cursor", gen_cursor, run_cursor, quick=2500, thorough=250000),
    Stream("composite_extract", gen_composite, run_composite, quick=1000, thorough=100000),
    Stream("scroll_query", gen_scroll, run_scroll, quick=600, thorough=40000),
    Stream("search_after_query", gen_sa, run_sa, quick=800, thorough=60000),
    Stream("composite_query", gen_ca, run_ca, quick=500, thorough=30000),
    Stream("request_body_query", gen_rb, run_rb, quick=600, thorough=40000),
    Stream("raw_text", gen_text, run_text, quick=2500, thorough=250000),
    Stream("extractor_sessions", gen_extractor_sessions, run_extractor_session, quick=1200, thorough=60000),
    Stream("query_sessions", gen_query_sessions, run_query_session, quick=500, thorough=20000),
    Stream("concurrent_searches", gen_concurrent, run_concurrent, quick=400, thorough=20000),
]
