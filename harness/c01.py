"""C01 — the schedule runs step by step on all clients under any message timing (real Worker/Driver/DriverActor on the simulator)."""
import json

from harness.framework import Stream, HarnessError

PROPERTY = "C01"
RULE = ("simulated races of the real DriverActor+Driver+Worker+AsyncIoAdapter+AsyncExecutor: schedules of 1-4 elements (leaf / parallel, "
        "over-committed and capped clients, iteration-based and eternal tasks with completed-by task/any), 1-2 hosts x 1-3 cores, dyadic service "
        "times, per-worker clock offsets, random delivery order, wake-ups delayed up to a bound, one worker's wake-ups starved; every trace is "
        "replayed through Race.step with per-event output comparison; signature = set of model branch tags of the trace + shape class")
TRUSTED = ["the simulator's rules stand for Thespian (FIFO per pair, wake-ups not early, bounded delays)",
           "executor thread modelled at the granularity task-returns / future-done; Python thread pre-emption inside a handler is not modelled"]
ASSUMPTIONS = ["fault-free runs (faults are C09)", "every element can end: eternal tasks only inside elements with completed-by"]

SVC = [0.125, 0.25, 0.5, 1.0, 2.0]


def gen_scenario(rng, small=False):
    names = iter(f"t{i}" for i in range(100))
    sched = []
    for _ in range(rng.randint(1, 3 if small else 4)):
        if rng.random() < 0.4:
            sched.append({"leaf": {"name": next(names), "clients": rng.choice([1, 1, 2, 3, 4]), "iterations": rng.randint(1, 3)}})
        else:
            mode = rng.choice(["none", "named", "named", "any"])
            # wide elements: many one-client tasks over few clients, i.e. several task columns per client with an uneven last column
            wide = rng.random() < 0.2
            n = rng.randint(4, 6) if wide else rng.randint(1, 3)
            tasks = []
            for i in range(n):
                tasks.append({"name": next(names), "clients": rng.choice([1, 1, 1, 2] if wide else [1, 1, 2, 3]), "iterations": rng.randint(1, 4)})
            if mode == "named":
                k = rng.randrange(n)
                tasks[k]["cp"] = True
                for i, t in enumerate(tasks):
                    if i != k and rng.random() < 0.6:
                        t["eternal"] = True
                        t.pop("iterations")
            elif mode == "any":
                for t in tasks:
                    t["acp"] = True
                # one task (any position) certainly ends by itself; each of the others may be eternal
                keep = rng.randrange(n)
                for i, t in enumerate(tasks):
                    if i != keep and rng.random() < 0.5:
                        t["eternal"] = True
                        t.pop("iterations")
            total = sum(t["clients"] for t in tasks)
            ov = None
            if wide and rng.random() < 0.8:
                ov = rng.choice([2, 2, 3])
            elif rng.random() < 0.45:
                ov = rng.choice([1, 2, max(1, total - 1), total + 1, total + 2])
            if ov is not None and ov < total:
                # over-committed: a client runs several tasks back to back, so an eternal task in front of the completing one
                # would be a deadlock by track design ("every element can end" excludes it) -> only finite tasks here
                for t in tasks:
                    if t.pop("eternal", None):
                        t["iterations"] = rng.randint(1, 4)
            sched.append({"par": tasks, "clients": ov})
    # elements that use fewer clients than the race has: one element that needs more clients than every other one, so that the others
    # leave clients idle — and, with fewer cores than clients, workers that host both a participating and an idle client
    if rng.random() < 0.3:
        most = max((e["leaf"]["clients"] if "leaf" in e else (e.get("clients") or sum(t["clients"] for t in e["par"]))) for e in sched)
        sched.insert(rng.randrange(len(sched) + 1), {"leaf": {"name": next(names), "clients": most + rng.randint(1, 2), "iterations": rng.randint(1, 2)}})
    # a task without any loop control (no iterations, no time period) runs exactly once: leave the iteration count out sometimes
    for e in sched:
        for t in ([e["leaf"]] if "leaf" in e else e["par"]):
            if t.get("iterations") and not t.get("eternal") and rng.random() < 0.15:
                t["iterations"] = None
    # time-based tasks (outside completed-by elements): a measurement period, sometimes a warm-up period, sometimes a ramp-up during
    # which the clients start one after the other — also in the shape --test-mode leaves behind (warm-up cut to 0, period capped, the
    # ramp-up untouched, so that a late client's ramp-up wait may exceed the whole period)
    for e in sched:
        if "par" in e and any(t.get("cp") or t.get("acp") for t in e["par"]):
            continue
        for t in ([e["leaf"]] if "leaf" in e else e["par"]):
            if not t.get("eternal") and rng.random() < 0.2:
                t["iterations"] = None
                t["time_period"] = rng.choice([0.5, 1.0, 2.0, 3.0])
                r = rng.random()
                if r < 0.3:
                    t["warmup_time_period"] = rng.choice([0.5, 1.0])
                if rng.random() < 0.5:
                    t["ramp_up_time_period"] = rng.choice([1.0, 2.0, 6.0])
                    if "warmup_time_period" not in t or rng.random() < 0.5:
                        t["warmup_time_period"] = 0  # test mode's clipping
    svc = {}
    for e in sched:
        for t in ([e["leaf"]] if "leaf" in e else e["par"]):
            r = rng.random()
            if r < 0.5:
                svc[t["name"]] = rng.choice(SVC)
            elif r < 0.75:
                svc[t["name"]] = [rng.choice(SVC) for _ in range(3)]
            else:
                # clients of one task that differ in speed: they finish at different times although they share a worker
                svc[t["name"]] = {"default": rng.choice(SVC), **{str(c): rng.choice(SVC) for c in rng.sample(range(6), rng.randint(1, 4))}}
    hosts = rng.choice([["localhost"], ["localhost"], ["10.0.0.1", "10.0.0.2"]])
    sc = {
        "schedule": sched,
        "svc": svc,
        "hosts": hosts,
        "cores": rng.choice([1, 2, 3]),
        "test_mode": rng.random() < 0.8,
        "max_wakeup_delay": rng.choice([0.0, 0.0, 0.25, 1.0, 3.0, 8.0]),
        "clock_offsets": [rng.choice([0.0, 0.0, 5.0, -3.0, 100.0]) for _ in range(4)],
        # how long the pool thread may take before it starts running a submitted column (messages keep arriving meanwhile)
        "exec_start_delay": rng.choice([0.0, 0.5, 2.0, 4.0, 8.0]),
        # ambient configuration that must be behaviour-neutral
        "log_level": rng.choice([None, None, "DEBUG", "INFO"]),
        # actors in different processes: messages arrive as pickled copies (as with Thespian's multiprocess bases) or by reference
        "pickle_messages": rng.random() < 0.5,
    }
    if sc["max_wakeup_delay"] > 0:
        sc["delay_bias"] = {rng.choice(["w0", "w1", "w2", "*"]): rng.choice([0.3, 0.7, 0.95])}
    return sc


def gen(ctx):
    for _ in range(ctx.budget):
        yield {"scenario": gen_scenario(ctx.rng), "seed": ctx.rng.randrange(1 << 30)}


# ---------------------------------------------------------------------------------------------
def task_index(scenario):
    idx, elem, spec = {}, {}, {}
    n = 0
    for ei, e in enumerate(scenario["schedule"]):
        for t in ([e["leaf"]] if "leaf" in e else e["par"]):
            idx[t["name"]] = n
            elem[t["name"]] = ei
            spec[t["name"]] = t
            n += 1
    return idx, elem, spec


def build_cfg(sim, scenario):
    """the static configuration of the model, read off the REAL objects (allocation matrix, worker assignment)"""
    from esrally.driver import driver

    tidx, _, spec = task_index(scenario)
    d = sim.actors["driver"].inst.driver
    cols, clients_of = [], []
    starts = [e for e in sim.trace if e["ev"] == "deliver" and e["msg"] == "StartWorker"]
    by_worker = {}
    for e in sim.trace:
        if e["ev"] == "deliver" and e["msg"] == "PrepareBenchmark" or e["ev"] == "deliver" and e["msg"] == "StartBenchmark":
            for dst, m in e["out"]:
                if isinstance(m, driver.StartWorker):
                    by_worker[m.worker_id] = m
    W = len(d.workers)
    for w in range(W):
        m = by_worker[w]
        ca = m.client_allocations
        clients_of.append([a["client_id"] for a in ca.allocations])
        ncol = len(ca.allocations[0]["tasks"])
        row = []
        for i in range(ncol):
            ts = ca.tasks(i)
            if not ts:
                row.append(None)
            elif isinstance(ts[0].task, driver.JoinPoint):
                jp = ts[0].task
                row.append({"join": jp.id, "completing": list(jp.clients_executing_completing_task), "any": list(jp.any_task_completes_parent)})
            else:
                row.append({"tasks": [{"client": a.client_id, "tid": tidx[a.task.task.name], "finite": not spec[a.task.task.name].get("eternal", False),
                                       "cp": bool(a.task.task.completes_parent), "acp": bool(a.task.task.any_completes_parent)} for a in ts]})
        cols.append(row)
    nclients = len(d.allocations)
    worker_of = [d.clients_per_worker[c] for c in range(nclients)]
    return {"W": W, "S": d.number_of_steps, "cols": cols, "workerOf": worker_of, "clientsOf": clients_of}


def check_cfg_of_alloc(ctx, sc, cfg):
    """the configuration the real Driver hands to its workers (read off ClientAllocations) against RaceOfAlloc.cfgOf,
    the configuration the Lean development derives from the allocator model (C02) — the link between the two models"""
    tidx, _, spec = task_index(sc)
    sched = []
    for e in sc["schedule"]:
        ts = [e["leaf"]] if "leaf" in e else e["par"]
        sched.append({"clients": None if "leaf" in e else e.get("clients"),
                      "tasks": [{"id": tidx[t["name"]], "clients": t["clients"], "cp": bool(t.get("cp")), "acp": bool(t.get("acp"))} for t in ts]})
    hosts = [{"name": i, "cores": sc["cores"]} for i, _ in enumerate(sc["hosts"])]
    finite = [tidx[n] for n, t in spec.items() if not t.get("eternal", False)]
    m = ctx.model("race", "cfgof", {"schedule": sched, "hosts": hosts, "finite": finite})["r"]
    elems, joins = [], None
    for row in cfg["cols"]:
        per_elem, cur, js, seen_first = [], [], [], False
        for col in row:
            if col is None:
                continue
            if "join" in col:
                if seen_first:
                    per_elem.append(cur)
                cur, seen_first = [], True
                js.append([col["completing"], col["any"]])
            else:
                cur.append(col["tasks"])
        elems.append(per_elem)
        joins = joins or js
    impl = {"W": cfg["W"], "S": cfg["S"], "elems": elems, "joins": joins, "workerOf": cfg["workerOf"], "clientsOf": cfg["clientsOf"]}
    for k in ("W", "S", "clientsOf", "workerOf", "joins", "elems"):
        if m[k] != impl[k]:
            ctx.diff("race configuration derived from the allocator model: " + k, m[k], impl[k])
            break
    ctx.count("cfg-of-alloc-compared")


def canon_out(out, tidx):
    from esrally.driver import driver

    toW, toD, toR, armed, sub = [], [], [], 0, []
    for dst, m in out:
        if isinstance(m, tuple):
            if m[0] == "wakeupAfter":
                armed += 1
            elif m[0] == "submit":
                sub += [[c, tidx[t]] for c, t in m[1]]
            continue
        name = type(m).__name__
        if dst.startswith("w") and name in ("StartWorker", "Drive", "CompleteCurrentTask"):
            toW.append([int(dst[1:]), name])
        elif dst == "driver" and name == "JoinPointReached":
            toD.append(m)
        elif dst == "rc" and name in ("TaskFinished", "BenchmarkComplete"):
            toR.append(name)
        elif name in ("Bootstrap", "UpdateSamples", "PreparationComplete"):
            pass
        else:
            toR.append("UNEXPECTED:" + name + "->" + dst)
    return toW, toD, toR, armed, sub


def to_model_events(sim, scenario, cfg):
    from esrally.driver import driver

    tidx, _, _ = task_index(scenario)
    events = []
    running = {}
    for e in sim.trace:
        if e["ev"] == "deliver":
            src, dst, name = e["src"], e["dst"], e["msg"]
            toW, toD, toR, armed, sub = canon_out(e["out"], tidx)
            if dst.startswith("w") and name in ("StartWorker", "Drive", "CompleteCurrentTask"):
                w = int(dst[1:])
                ev = {"e": "deliverDW", "w": w}
                if sub:
                    running[w] = sub
                jcols = [[w, _jcol(cfg, w, m)] for m in toD]
                ev["out"] = {"toW": toW, "toD": jcols, "toR": toR, "armed": armed, "submitted": sub}
                events.append(ev)
            elif dst == "driver" and name == "JoinPointReached":
                w = int(src[1:])
                ev = {"e": "deliverWD", "w": w, "out": {"toW": sorted(toW), "toD": [], "toR": toR, "armed": 0, "submitted": []}}
                events.append(ev)
            elif dst == "driver" and name in ("StartBenchmark", "PrepareBenchmark"):
                pass  # start-up: the model's initial state already holds StartWorker in every worker channel
            elif name in ("Bootstrap", "UpdateSamples", "PreparationComplete", "TaskFinished", "BenchmarkComplete"):
                if name == "UpdateSamples" or name == "Bootstrap" or dst == "rc":
                    pass
            elif name == "BenchmarkFailure" or name == "PoisonMessage":
                events.append({"e": "UNMODELLED", "w": 0, "what": f"{name} {src}->{dst}"})
        elif e["ev"] == "wakeup" and e["actor"].startswith("w"):
            w = int(e["actor"][1:])
            toW, toD, toR, armed, sub = canon_out(e["out"], tidx)
            if sub:
                running[w] = sub
            events.append({"e": "wakeW", "w": w, "out": {"toW": toW, "toD": [[w, _jcol(cfg, w, m)] for m in toD], "toR": toR, "armed": armed, "submitted": sub}})
        elif e["ev"] == "exec":
            w = int(e["actor"][1:])
            for what, kw in e["notes"]:
                if what == "task-done":
                    key = [kw["client"], tidx[kw["task"]]]
                    if key not in running.get(w, []):
                        # e.g. two columns of one worker executing at once: nothing the protocol model can express; the replay reports it
                        # as a difference and the direct oracles below still judge the race
                        events.append({"e": "UNMODELLED", "w": w, "what": f"a task finished that is not in the column worker {w} submitted last: {key}"})
                        continue
                    i = running[w].index(key)
                    events.append({"e": "taskDone", "w": w, "i": i, "out": {"toW": [], "toD": [], "toR": [], "armed": 0, "submitted": []}})
            if e["done"] and not e["failed"]:
                events.append({"e": "execFinish", "w": w, "out": {"toW": [], "toD": [], "toR": [], "armed": 0, "submitted": []}})
            elif e["done"]:
                events.append({"e": "UNMODELLED", "w": w, "what": "executor failed"})
    return events


def _jcol(cfg, w, m):
    # the join point a JoinPointReached message reports; -1 (never a join point id of the model) if the worker reported
    # something that is not a join point, so that the replay shows the difference instead of the harness failing
    from esrally.driver import driver

    t = m.task[0] if m.task else None
    jp = getattr(t, "task", None)
    return jp.id if isinstance(jp, driver.JoinPoint) else -1


def _iters(t):
    """requests per allocation of a task that ends by itself: its iteration count, 1 if it has no loop control at all; None = eternal"""
    if t.get("eternal") or t.get("time_period"):
        return None  # (a time-based task ends by itself, but after a number of requests this harness does not predict)
    return t.get("iterations") or 1


def budget(scenario):
    total = 0.0
    for e in scenario["schedule"]:
        for t in ([e["leaf"]] if "leaf" in e else e["par"]):
            v = scenario["svc"].get(t["name"], 0.25)
            mx = max(v) if isinstance(v, list) else max(v.values()) if isinstance(v, dict) else v
            total += mx * ((t.get("iterations") or 1) + (t.get("warmup_iterations") or 0)) * 4
            total += (t.get("time_period") or 0) + (t.get("warmup_time_period") or 0) + (t.get("ramp_up_time_period") or 0) + (mx if t.get("time_period") else 0)
    per_step = 12.0 + 3 * scenario.get("max_wakeup_delay", 0.0) + 6 * scenario.get("exec_start_delay", 0.0)
    return 50.0 + total * 3 + per_step * (len(scenario["schedule"]) + 2) * 3


def run_sim(case):
    from harness import sim_race

    sc = case["scenario"]
    sim = sim_race.Sim(sc, seed=case["seed"])
    sim.start()
    done = lambda s: any(type(m).__name__ in ("BenchmarkComplete",) for m in s.rc.inbox) and not s.channels
    res = sim.run(max_events=60000, max_vtime=budget(sc), until=done)
    return sim, res


def run(ctx, case):
    sc = case["scenario"]
    tidx, elem_of, spec = task_index(sc)
    sim, res = run_sim(case)
    inbox = [type(m).__name__ for m in sim.rc.inbox]
    S = len(sc["schedule"])
    shape = shape_class(sc)
    # ---------------- direct oracle on what is observable ----------------
    if "BenchmarkFailure" in inbox:
        f = [m for m in sim.rc.inbox if type(m).__name__ == "BenchmarkFailure"][0]
        ctx.fail(shape + ":failure-without-fault", "race control received BenchmarkFailure in a fault-free race", inbox, str(f.message)[-600:])
    elif res != "until":
        ctx.fail(shape + ":hang", f"race does not complete ({res}) within the virtual-time budget: stuck after {inbox}", ["PreparationComplete"] + ["TaskFinished"] * S + ["BenchmarkComplete"], inbox)
    else:
        exp = ["PreparationComplete"] + ["TaskFinished"] * S + ["BenchmarkComplete"]
        if inbox != exp:
            ctx.fail(shape + ":completion-messages", "race control did not receive TaskFinished per step and exactly one BenchmarkComplete at the end", exp, inbox)
    # barrier: no request of a later element before every request of the earlier ones has ended
    last_end, first_start = {}, {}
    for r in sim.request_log:
        k = elem_of[r["task"]]
        last_end[k] = max(last_end.get(k, -1), r["end"])
        first_start[k] = min(first_start.get(k, 1e18), r["start"])
    ks = sorted(first_start)
    for a, b in zip(ks, ks[1:]):
        if first_start[b] < last_end[a]:
            ctx.fail(shape + ":barrier", f"a request of element {b} was issued before element {a} had finished", last_end[a], first_start[b])
    # exactly once
    starts = {}
    for e in sim.trace:
        if e["ev"] == "exec":
            for what, kw in e["notes"]:
                if what == "task-start":
                    starts[(kw["client"], kw["task"])] = starts.get((kw["client"], kw["task"]), 0) + 1
    d = sim.actors["driver"].inst.driver
    if res == "until" and d.allocations is not None:
        from esrally.driver import driver as drv

        for row in d.allocations:
            for x in row:
                if isinstance(x, drv.TaskAllocation):
                    key = (x.global_client_index % len(d.allocations), x.task.name)
        alloc_count = {}
        for ci, row in enumerate(d.allocations):
            for x in row:
                if isinstance(x, drv.TaskAllocation):
                    alloc_count[(ci, x.task.name)] = alloc_count.get((ci, x.task.name), 0) + 1
        for (ci, tname), n in alloc_count.items():
            got = starts.get((ci, tname), 0)
            e = sc["schedule"][elem_of[tname]]
            has_cb = "par" in e and any(t.get("cp") or t.get("acp") for t in e["par"])
            if got > n:
                ctx.fail(shape + ":started-twice", f"client {ci} started task {tname} {got} times (allocated {n})", n, got)
            elif got < n and not has_cb:
                ctx.fail(shape + ":never-started", f"client {ci} never ran task {tname} although its element has no completed-by", n, got)
        # tasks outside completed-by elements are never cut short; the named completing task runs to its end
        reqs = {}
        for r in sim.request_log:
            reqs[(r["client"], r["task"])] = reqs.get((r["client"], r["task"]), 0) + 1
        for (ci, tname), n in alloc_count.items():
            t = spec[tname]
            e = sc["schedule"][elem_of[tname]]
            has_cb = "par" in e and any(x.get("cp") or x.get("acp") for x in e["par"])
            overcommitted = "par" in e and e.get("clients") is not None and e["clients"] < sum(x["clients"] for x in e["par"])
            if _iters(t) and (not has_cb or (t.get("cp") and not overcommitted)):
                # (in an over-committed element the worker-local completion flag makes later columns of the same element be
                #  skipped — the documented skip — including later allocations of the completing task itself; not checked here)
                want = n * _iters(t)
                if reqs.get((ci, tname), 0) != want:
                    ctx.fail(shape + ":cut-short", f"client {ci} issued {reqs.get((ci, tname), 0)} requests of task {tname}, expected {want}", want, reqs.get((ci, tname), 0))
        # a time-based task outside a completed-by element: every client allocated to it runs it, i.e. issues at least one request
        # (the period is checked when an iteration is handed out, so a client that starts late still gets its first one)
        for (ci, tname), n in alloc_count.items():
            t = spec[tname]
            e = sc["schedule"][elem_of[tname]]
            has_cb = "par" in e and any(x.get("cp") or x.get("acp") for x in e["par"])
            if t.get("time_period") and not has_cb and reqs.get((ci, tname), 0) < n:
                ctx.fail(shape + ":allocated-client-issued-no-request", f"client {ci} is allocated to the time-based task {tname} {n} time(s) but issued "
                         f"{reqs.get((ci, tname), 0)} request(s) of it", f">= {n}", reqs.get((ci, tname), 0))
        # completed-by: any — the element ends when the FIRST task to finish is done, so when it has ended at least one of its
        # task allocations has run to its natural end
        for ei, e in enumerate(sc["schedule"]):
            if "par" in e and e["par"] and all(x.get("acp") for x in e["par"]):
                overcommitted = e.get("clients") is not None and e["clients"] < sum(x["clients"] for x in e["par"])
                if overcommitted:
                    continue
                finished = [(ci, tn) for (ci, tn), n in alloc_count.items() if elem_of[tn] == ei and _iters(spec[tn])
                            and reqs.get((ci, tn), 0) == n * _iters(spec[tn])]
                # … and no later than that: once the first task allocation has finished, the others are told to complete at the
                # finisher's next poll; nobody starts another request of this element much later than that
                if finished:
                    ends = {}
                    for r in sim.request_log:
                        if elem_of.get(r["task"]) == ei:
                            k = (r["client"], r["task"])
                            ends.setdefault(k, []).append(r)
                    t_first = min(max(x["end"] for x in ends[k]) for k in finished if k in ends) if any(k in ends for k in finished) else None
                    if t_first is not None:
                        poll = 1.0 if sc.get("test_mode", True) else 6.0
                        bound = poll + 1.5 + 2 * sc.get("max_wakeup_delay", 0.0) + sc.get("exec_start_delay", 0.0)
                        late = [(x["client"], x["task"], x["start"]) for k, rs in ends.items() for x in rs if x["start"] > t_first + bound]
                        if late:
                            ctx.fail(shape + ":any-not-ended-by-first-finisher", f"element {ei} (completed-by any): requests were still started more than {bound} s after "
                                     f"its first task allocation had finished at t={t_first}", f"no request start after {t_first + bound}", late[:4])
                if not finished:
                    ctx.fail(shape + ":any-ended-before-a-task-finished", f"element {ei} (completed-by any) ended although none of its tasks had run to its end",
                             "at least one finished task allocation", {f"{ci}/{tn}": reqs.get((ci, tn), 0) for (ci, tn) in alloc_count if elem_of[tn] == ei})
    # ---------------- correspondence: replay the trace through the Lean model ----------------
    tags = []
    if d.allocations is not None and sim.actors["driver"].inst.driver.workers:
        cfg = build_cfg(sim, sc)
        check_cfg_of_alloc(ctx, sc, cfg)
        evs = to_model_events(sim, sc, cfg)
        un = [e for e in evs if e["e"] == "UNMODELLED"]
        if un:
            ctx.diff("trace contains events outside the fault-free model", None, un[0]["what"])
        else:
            m = ctx.model("race", "replay", {"cfg": cfg, "events": evs})
            tags = m.get("tags", [])
            if "diff" in m:
                ctx.diff("trace replay", m["diff"].get("model"), {"at": m["diff"]["at"], "why": m["diff"]["why"], "event": m["diff"]["event"], "impl": m["diff"].get("impl")})
            elif res == "until":
                r = m["r"]
                if r["d2r"] != ["TaskFinished"] * S + ["BenchmarkComplete"]:
                    ctx.diff("final model state", r["d2r"], inbox)
    ctx.count("result:" + res)
    ctx.count("events", len(sim.trace))
    ctx.sig([sorted(tags), shape], nontrivial=len(sim.actors) > 3 or S > 1)


def shape_class(sc):
    c = []
    for e in sc["schedule"]:
        if "par" in e:
            tot = sum(t["clients"] for t in e["par"])
            if any(t.get("cp") for t in e["par"]):
                c.append("named")
            if any(t.get("acp") for t in e["par"]):
                c.append("any")
            if e.get("clients") and e["clients"] < tot:
                c.append("overcommit")
    if sc.get("max_wakeup_delay", 0) > 0:
        c.append("delayed-wakeups")
    return "+".join(sorted(set(c))) or "plain"


STREAMS = [
    Stream("simulated_races", gen, run, quick=2560, thorough=200000, shards=16),
]
