"""C09 — any failure or cancellation ends the race as failed, never as success (real BenchmarkActor/BenchmarkCoordinator + DriverActor +
TrackPreparationActor + TaskExecutionActor + Worker + executor on the race simulator, with injected faults)."""
import ast
import os
import shutil
import tempfile

from harness.framework import Stream, LEAN_DIR, HarnessError
from harness import c01

PROPERTY = "C09"
RULE = ("simulated full races (race control included) with exactly one injected fault: request fails under on-error=abort / fatal connection error, "
        "runner raises, parameter source raises, driver metrics store fails while samples are stored, race control's store fails in bulk_add, "
        "a track preparation task fails, one of several track processors raises when asked for its tasks, a request behind the retry wrapper is answered with a script of errors, a worker process dies, the user cancels — at a random request index / call index / virtual time — plus "
        "fault-free controls; signature = (fault kind, model branch tags, whether the fault fired before completion)")
TRUSTED = ["the model of runner.Retry is C16's (RallyModel/Retry.lean), composed here with the model of execute_single",
           "the simulator's rules stand for Thespian (incl. ChildActorExited on process death, PoisonMessage after two failures)",
           "MechanicActor is replaced by an acknowledging stub here (the real one is C12)",
           "sender adjacency of the actors (who can send to whom) in the relay table is written by hand; forwarding targets, no_retry guards and PoisonMessage handlers are extracted from the AST"]
ASSUMPTIONS = ["a single fault per race (kind request-retry: one script of answers to consecutive attempts of one client)", "race() looks at the first reply only (actor_system.ask)"]

KINDS = ["request-abort", "request-connection", "runner-raises", "params-raise", "driver-store", "rc-store", "prep-task", "kill-worker", "cancel", "none", "outage",
         "request-unsuccessful", "prep-processors", "request-retry"]

# what one attempt of a request behind the retry wrapper can end with (fault value of the simulator -> outcome class of the Retry model)
ATTEMPT_KINDS = {"api-408": "api408", "api-503": "apiOther", "api-404": "apiOther", "api-429": "apiOther", "connection-timeout": "connTimeout",
                 "connection-error": "connError", "socket-timeout": "sockTimeout", "serialization-error": "transportOther",
                 "unsuccessful-result": "dictFail", "runner-raises": "otherExc"}
TIMEOUT_CLASS = {"api-408", "connection-timeout", "connection-error", "socket-timeout"}


def retried_request_reference(retry, script, on_error):
    """the property's own reading of requests behind the retry wrapper (documentation of the retry settings): the cluster answers the
    consecutive attempts with `script` and is healthy afterwards; an invocation whose outcome does not end the race is followed by the
    next invocation of the task (fresh retry budget). Returns (index of the attempt whose outcome must end the race | None,
    attempts per invocation so far)"""
    until = bool(retry.get("retry-until-success", False))
    attempts = None if until else int(retry.get("retries", 0)) + 1
    on_err = True if until else bool(retry.get("retry-on-error", False))
    on_timeout = bool(retry.get("retry-on-timeout", True))
    used = 0  # attempts of the current invocation made before this one
    for i, k in enumerate(script):
        last = attempts is not None and used + 1 >= attempts
        retryable = (k in TIMEOUT_CLASS and on_timeout) or (k == "unsuccessful-result" and on_err)
        if retryable and not last:
            used += 1
            continue
        # this attempt's outcome is the outcome of the request
        used = 0
        if k in ("socket-timeout", "runner-raises"):
            return i  # not an Elasticsearch client error: the runner raised
        if k == "connection-error":
            return i  # fatal under every policy
        if on_error == "abort":
            return i
    return None  # nothing that ends the race


def _quiet_abandoned_coroutines():
    """executors still suspended when a failed race is torn down are closed by the garbage collector; their `finally` blocks then
    reset a ContextVar outside its context, which Python reports on stderr as "Exception ignored in: <coroutine …>" — noise, not a verdict"""
    import sys

    default = sys.unraisablehook

    def hook(u):
        if "was created in a different Context" in str(u.exc_value) or "There is no current event loop" in str(u.exc_value) or "coroutine ignored GeneratorExit" in str(u.exc_value):
            return
        default(u)

    if getattr(sys.unraisablehook, "__name__", "") != "hook":
        sys.unraisablehook = hook


# faults that make an executor's future fail (the worker reports them at its next wake-up and stays where it is)
EXECUTOR_KINDS = {"request-abort", "request-unsuccessful", "request-connection", "runner-raises", "params-raise"}


def gen(ctx):
    rng = ctx.rng
    for i in range(ctx.budget):
        sc = c01.gen_scenario(rng, small=True)
        sc["full_race"] = True
        sc["max_wakeup_delay"] = min(sc.get("max_wakeup_delay", 0.0), 1.0)
        kind = KINDS[(i + ctx.shard) % len(KINDS)] if rng.random() < 0.8 else rng.choice(KINDS)
        tasks = [t for e in sc["schedule"] for t in ([e["leaf"]] if "leaf" in e else e["par"])]
        t = rng.choice(tasks)
        faults, timed = {}, []
        max_clients = max([1] + [(e["leaf"]["clients"] if "leaf" in e else (e.get("clients") or sum(x["clients"] for x in e["par"]))) for e in sc["schedule"]])
        nworkers = min(max_clients, sc["cores"] * len(sc["hosts"]))
        # mostly in-range indices so that the fault really fires; sometimes out of range (then the race must simply succeed)
        cidx = lambda: rng.randrange(max(1, min(t.get("clients", 1), max_clients))) if rng.random() < 0.85 else rng.randrange(4)
        ridx = lambda: rng.randrange(max(1, t.get("iterations") or 2)) if rng.random() < 0.85 else rng.randrange(3)
        if kind == "request-abort":
            sc["on_error"] = "abort"
            faults[("request", t["name"], cidx(), ridx())] = "api-error"
        elif kind == "request-unsuccessful":
            sc["on_error"] = "abort"
            faults[("request", t["name"], cidx(), ridx())] = "unsuccessful-result"
        elif kind == "request-connection":
            faults[("request", t["name"], cidx(), ridx())] = "connection-error"
        elif kind == "runner-raises":
            faults[("request", t["name"], cidx(), ridx())] = "runner-raises"
        elif kind == "params-raise":
            faults[("params", t["name"], rng.randrange(max(1, t.get("clients", 1))), ridx())] = True
        elif kind == "driver-store":
            faults[("store", rng.randint(1, 12))] = True
        elif kind == "rc-store":
            faults[("rc-store", rng.randint(1, len(sc["schedule"]) + 1))] = True
        elif kind == "prep-task":
            sc["prep_tasks"] = rng.randint(1, 3)
            faults[("prep", rng.randrange(sc["prep_tasks"]))] = True
        elif kind == "prep-processors":
            # several track processors (Rally registers its own before those of the track's plugins); one of them cannot determine its
            # tasks, or one task of one of them fails, or (control) nothing fails
            procs = [{"tasks": rng.choice([0, 1, 1, 2, 3])} for _ in range(rng.randint(1, 4))]
            sc["prep_processors"] = procs
            p = rng.randrange(len(procs))
            r = rng.random()
            if r < 0.5:
                faults[("prep-seed", p)] = True
            elif r < 0.9 and procs[p]["tasks"] > 0:
                faults[("prep", p, rng.randrange(procs[p]["tasks"]))] = True
        elif kind == "request-retry":
            # the request goes through the real retry wrapper (as cluster-health, create-index, … do): a script of answers to the attempts
            plain = [x for e in sc["schedule"] for x in ([e["leaf"]] if "leaf" in e else e["par"]) if not x.get("subs")]
            leafs = [e["leaf"] for e in sc["schedule"] if "leaf" in e and not e["leaf"].get("subs")]
            t = rng.choice(leafs or plain or [t])
            retry = {}
            retries = rng.choice([0, 1, 1, 2, 3])
            if rng.random() < 0.85:
                retry["retries"] = retries
            else:
                retries = 0
            if rng.random() < 0.4:
                retry["retry-on-timeout"] = rng.random() < 0.7
            if rng.random() < 0.4:
                retry["retry-on-error"] = rng.random() < 0.7
            retry["retry-wait-period"] = rng.choice([0, 0.125, 0.5])
            if rng.random() < 0.08:
                retry["retry-until-success"] = True
            t["retry"] = retry
            first = rng.choice(list(ATTEMPT_KINDS))
            n = rng.choice([retries + 1, retries + 1, retries + 1, retries, retries + 2, 1])
            script = [first if rng.random() < 0.8 else rng.choice(list(ATTEMPT_KINDS)) for _ in range(max(1, n))]
            sc["on_error"] = "abort" if rng.random() < 0.8 else "continue"
            c, n0 = cidx(), ridx()
            for i, k in enumerate(script):
                faults[("request", t["name"], c, n0 + i)] = k
            sc["retry_case"] = {"task": t["name"], "client": c, "first_call": n0, "script": script, "retry": retry}
        elif kind == "kill-worker":
            timed.append([rng.choice([0.125, 0.3, 0.6, 1.1, 2.0, 4.0]), "kill-worker", rng.randrange(nworkers) if rng.random() < 0.9 else 3])
        elif kind == "cancel":
            timed.append([rng.choice([0.0, 0.25, 0.5, 1.0, 2.0, 4.0]), "cancel", None])
        elif kind == "outage":
            # the cluster becomes unreachable and stays so: every later request (and every call of the driver's own client) fails
            sc["outage_from"] = rng.choice([0.0, 1.125, 1.5, 2.25, 3.0, 5.0])
        # the class of the injected exception must not matter (time-outs, OS errors, Rally's own errors, …)
        from harness import sim_race as _sr

        sc["fault_exc"] = rng.choice(_sr.FAULT_CLASSES) if rng.random() < 0.6 else "RuntimeError"
        if kind == "request-retry":
            # "runner-raises" stands for an exception that is not a time-out (socket.timeout, which the retry wrapper handles, is TimeoutError)
            sc["fault_exc"] = rng.choice(["RuntimeError", "OSError", "KeyError", "AssertionError", "esrally.exceptions.RallyError", "ZeroDivisionError"])
        # configuration that changes what the actors do on start-up and shut-down
        sc["profiling"] = rng.random() < 0.08  # --enable-driver-profiling wraps every executor
        sc["api_keys"] = rng.random() < 0.4
        sc["faults"] = {repr(k): v for k, v in faults.items()}
        sc["timed"] = timed
        # how long the system keeps running after the caller of race() got its first reply (in reality until its ActorExitRequest
        # takes effect): a moment, a few seconds, or until nothing is left to do
        yield {"scenario": sc, "seed": rng.randrange(1 << 30), "kind": kind, "grace": rng.choice([0.5, 3.0, 3.0, None, None])}


def run(ctx, case):
    from harness import sim_race

    _quiet_abandoned_coroutines()
    sc = dict(case["scenario"])
    sc["faults"] = {ast.literal_eval(k): v for k, v in sc.get("faults", {}).items()}
    tmp = tempfile.mkdtemp(prefix="c09-")
    sc["root_dir"] = tmp
    try:
        sim = sim_race.Sim(sc, seed=case["seed"])
        sim.start()
        grace = {"t": None}

        def until(s):
            if s.ss.inbox and grace["t"] is None:
                grace["t"] = s.clock
            # after the first reply give the system a little more virtual time (a later Success must not change the verdict)
            if grace["t"] is None:
                return False
            g = case.get("grace", 3.0)
            if type(s.ss.inbox[0]).__name__ == "Success" and not s.channels and not s.executors and s.clock > grace["t"]:
                return True  # the race is over and torn down
            # (workers and the driver re-arm their wake-ups for ever, so "nothing left to do" is a time bound: the whole race's budget)
            return s.clock > grace["t"] + (c01.budget(sc) if g is None else g)

        res = sim.run(max_events=80000, max_vtime=c01.budget(sc) * (2 if case.get("grace", 3.0) is None else 1) + 30, until=until)
        kind = case["kind"]
        replies = [type(m).__name__ for m in sim.ss.inbox]
        # messages handled by the real BenchmarkActor, in order
        rc_msgs, complete_at = [], None
        for e in sim.trace:
            # Setup starts the race; ChildActorExited (the driver actor leaving after ActorExitRequest) goes to receiveUnrecognizedMessage
            if e["ev"] == "deliver" and e["dst"] == "rc" and e["msg"] not in ("Setup", "ChildActorExited"):
                rc_msgs.append(e["msg"])
                if e["msg"] == "BenchmarkComplete" and complete_at is None:
                    complete_at = e["t"]
        fired = sim.fault_time is not None
        fault_time = sim.fault_time
        extra_tags = []
        rcase = sc.get("retry_case")
        if rcase:
            # requests behind the retry wrapper: whether (and at which attempt) the race must end follows from the case, not from what
            # the code made of the answers
            key = (rcase["task"], rcase["client"])
            made = sim.call_counter[key] - rcase["first_call"]  # attempts made from the first scripted answer on
            deciding = retried_request_reference(rcase["retry"], rcase["script"], sc.get("on_error", "continue"))
            fired = deciding is not None and made > deciding
            ends = [e["end"] for e in sim.request_log if e["client"] == rcase["client"] and e["task"] == rcase["task"]]
            fault_time = max(ends + [sim.fault_time or 0.0]) if fired else None
            # the same walk through the model (Retry.retry composed with RaceCtl.execSingle), one invocation after the other
            pos, m_deciding, m_tags = 0, None, []
            while pos < len(rcase["script"]) and m_deciding is None:
                r = rcase["retry"]
                mm = ctx.model("racectl", "retried-request", {"ctor": False, "until": r.get("retry-until-success"), "retries": r.get("retries"),
                                                               "on_error": r.get("retry-on-error"), "on_timeout": r.get("retry-on-timeout"), "wait": None,
                                                               "outs": [ATTEMPT_KINDS[k] for k in rcase["script"][pos:]], "abort": sc.get("on_error") == "abort"})
                m_tags += mm.get("tags", [])
                if mm["r"]["result"] == "pending":
                    break
                if mm["r"]["result"] not in ("sample-ok", "sample-failed"):
                    m_deciding = pos + mm["r"]["calls"] - 1
                pos += max(1, mm["r"]["calls"])
            extra_tags = sorted(set(m_tags))
            if m_deciding != deciding:
                ctx.diff("attempt whose outcome ends the race (model of Retry + execute_single vs. the documented retry settings)", m_deciding, deciding)
            ctx.count("retry:" + ("ends-race" if deciding is not None else "race-goes-on") + (":reached" if made > (deciding if deciding is not None else len(rcase["script"]) - 1) else ":not-reached"))
        before_completion = fired and (complete_at is None or fault_time < complete_at or kind == "rc-store")
        stored_results = any(sim.results_stored_flags()) if hasattr(sim, "results_stored_flags") else any(sim.results_stored)
        # ---------------- correspondence with the RaceCtl model ----------------
        known = {"EngineStarted", "PreparationComplete", "TaskFinished", "BenchmarkComplete", "BenchmarkFailure", "PoisonMessage", "BenchmarkCancelled", "EngineStopped"}
        tags = []
        if all(m in known for m in rc_msgs):
            m = ctx.model("racectl", "run", {"msgs": rc_msgs})
            tags = m.get("tags", [])
            # a handler of race control that raised has not produced its usual effects; the model is told through the message stream only
            if m["r"]["replies"] != replies:
                ctx.diff("replies to the start sender", m["r"]["replies"], replies)
            if m["r"]["resultsStored"] != stored_results and kind != "rc-store":
                ctx.diff("results stored", m["r"]["resultsStored"], stored_results)
        else:
            ctx.diff("race control received an unexpected message", sorted(known), [x for x in rc_msgs if x not in known])
        # ---------------- direct oracle ----------------
        cls = kind
        if before_completion:
            want = "BenchmarkCancelled" if kind == "cancel" else "BenchmarkFailure"
            if not replies:
                ctx.fail(cls + ":no-notification", f"the fault fired at t={fault_time} but the caller of race() never got a reply ({res})", want, replies)
            elif replies[0] == "Success":
                ctx.fail(cls + ":reported-success", "a race with a fault was reported as successfully completed", want, replies)
            elif replies[0] != want and not (kind == "cancel" and replies[0] == "BenchmarkFailure"):
                ctx.fail(cls + ":wrong-first-reply", "unexpected first reply", want, replies)
            else:
                latency = sim.ss.times[0] - fault_time
                bound = 8.0 + 2 * sc.get("max_wakeup_delay", 0.0) + (0.0 if sc.get("test_mode", True) else 6.0)
                if latency > bound:
                    ctx.fail(cls + ":late-notification", "failure notification took longer than the bound", bound, latency)
            if stored_results or sim.summaries:
                ctx.fail(cls + ":results-after-fault", "final results were stored or printed although the race had a fault / was cancelled", [False, 0], [stored_results, len(sim.summaries)])
            racefile = os.path.join(tmp, "races", "6ebc6e53-ee20-4b0c-99b4-09697987e9f4", "race.json")
            if os.path.exists(racefile):
                import json

                if json.load(open(racefile)).get("results"):
                    ctx.fail(cls + ":race-json-results", "race.json contains results although the race had a fault", None, "results present")
        elif not fired:
            if replies[:1] != ["Success"] or not stored_results or len(sim.summaries) != 1:
                ctx.fail("retried-request:not-success" if rcase else "fault-free:not-success", "a race without any fault did not end with Success + stored results + one summary", ["Success", True, 1], [replies, stored_results, len(sim.summaries)])
        # ---------------- a worker whose executor failed never moves on, so no barrier opens after the failure (Lean: C09.failed_executor_blocks_completion) ----
        # ---------------- track preparation with several processors: model of the preparation run + "prepared" means every task ran ----------------
        if sc.get("prep_processors") is not None:
            procs = [{"seed_raises": bool(sc["faults"].get(("prep-seed", i))), "task_fails": [bool(sc["faults"].get(("prep", i, k))) for k in range(p["tasks"])]}
                     for i, p in enumerate(sc["prep_processors"])]
            pm = ctx.model("racectl", "prep-run", {"procs": procs})
            tags = tags + pm.get("tags", [])
            prepared = "PreparationComplete" in rc_msgs
            if (pm["r"]["outcome"] == "prepared") != prepared:
                ctx.diff("track preparation completed", pm["r"]["outcome"], "prepared" if prepared else "not prepared")
            if prepared:
                # one track preparator per load driver host, each runs every task once
                npreps = sum(1 for sh in sim.actors.values() if type(sh.inst).__name__ == "TrackPreparationActor")
                want_tasks = sorted([i, k] for i, p in enumerate(sc["prep_processors"]) for k in range(p["tasks"]) for _ in range(max(1, npreps)))
                if sorted(list(x) for x in sim.prep_done) != want_tasks:
                    ctx.fail("prep-processors:prepared-without-all-tasks", "the track was declared prepared although not every task of every track processor "
                             "had run exactly once (per track preparator)", want_tasks, sorted(list(x) for x in sim.prep_done))
        if fired and kind in EXECUTOR_KINDS | {"request-retry"}:
            late = [[e["t"], type(m).__name__] for e in sim.trace if e["ev"] in ("deliver", "wakeup") and e.get("t", 0.0) > fault_time
                    and (e.get("dst") if e["ev"] == "deliver" else e.get("actor")) == "driver"
                    for _dst, m in e.get("out", []) if type(m).__name__ in ("TaskFinished", "BenchmarkComplete")]
            if late:
                ctx.fail(cls + ":step-completed-after-executor-failure", f"an executor failed at t={fault_time}, yet the driver afterwards declared a step "
                         "(or the benchmark) complete: the failed worker must never reach its join point", [], late[:4])
            ctx.count("executor-failures-checked-for-late-completion")
        ctx.count("kind:" + kind + (":fired" if fired else ":not-fired"))
        ctx.sig([kind, sorted(tags) + extra_tags, fired, before_completion], nontrivial=True)
    finally:
        shutil.rmtree(tmp, ignore_errors=True)


# ---------------------------------------------------------------------------------------------
# translator: the failure relay table, regenerated from the source on every run
# ---------------------------------------------------------------------------------------------
ATTR2ACTOR = {"driver_actor": "driver", "task_preparation_actor": "trackPreparator", "benchmark_actor": "benchmark", "start_sender": "startSender"}
CLASS2ACTOR = {"TaskExecutionActor": "taskExecutor", "TrackPreparationActor": "trackPreparator", "Worker": "worker", "DriverActor": "driver", "BenchmarkActor": "benchmark"}
# who can send a message to whom (hand-written adjacency, see TRUSTED); a WakeupMessage is "sent" by the actor itself
SENDERS = {"taskExecutor": ["trackPreparator", "taskExecutor"], "trackPreparator": ["driver", "taskExecutor", "trackPreparator"],
           "worker": ["driver", "worker"], "driver": ["benchmark", "worker", "trackPreparator", "driver"], "benchmark": ["startSender", "driver", "benchmark"]}
TEARDOWN = {"receiveMsg_BenchmarkFailure", "receiveMsg_BenchmarkCancelled", "receiveMsg_PoisonMessage", "receiveMsg_ActorExitRequest", "receiveMsg_ChildActorExited"}


def translate(repo_root):
    import ast as pyast

    forwards, guarded, unguarded = {}, [], []
    for rel in ("esrally/driver/driver.py", "esrally/racecontrol.py"):
        tree = pyast.parse(open(os.path.join(repo_root, rel)).read())
        for node in tree.body:
            if isinstance(node, pyast.ClassDef) and node.name in CLASS2ACTOR:
                actor = CLASS2ACTOR[node.name]
                for fn in node.body:
                    if not isinstance(fn, pyast.FunctionDef) or not fn.name.startswith("receiveMsg_"):
                        continue
                    is_guarded = any("no_retry" in pyast.unparse(d) for d in fn.decorator_list)
                    if fn.name == "receiveMsg_BenchmarkFailure":
                        tgt = None
                        for call in pyast.walk(fn):
                            if isinstance(call, pyast.Call) and pyast.unparse(call.func) == "self.send" and call.args:
                                a0 = pyast.unparse(call.args[0])
                                if a0.startswith("self.") and a0[5:] in ATTR2ACTOR:
                                    tgt = ATTR2ACTOR[a0[5:]]
                        if tgt is None:
                            raise HarnessError(f"{node.name}.receiveMsg_BenchmarkFailure does not forward to a known actor")
                        forwards[actor] = tgt
                    if is_guarded:
                        guarded.append((f"{node.name}.{fn.name}", actor))
                    else:
                        unguarded.append((node.name, fn.name, fn.name in TEARDOWN))
    for a in CLASS2ACTOR.values():
        if a not in forwards:
            raise HarnessError(f"actor {a} has no receiveMsg_BenchmarkFailure")
    lines = ["import RallyModel.RaceCtl", "/-! GENERATED by harness/c09.py:translate from esrally/driver/driver.py and esrally/racecontrol.py — do not edit -/",
             "namespace FailureRelay", "open RaceCtl", "", "def forwardsTo : Actor → Option Actor"]
    for a, t in sorted(forwards.items()):
        lines.append(f"  | .{a} => some .{t}")
    lines.append("  | .startSender => none")
    lines += ["", "/-- (guarded handler, actor the no_retry guard sends the BenchmarkFailure to = a possible sender of the message) -/",
              "def guardedHandlerSenders : List (String × Actor) := ["]
    rows = []
    for name, actor in guarded:
        for snd in SENDERS[actor]:
            rows.append(f'  ("{name}", .{snd})')
    lines.append(",\n".join(rows) + "]")
    lines += ["", "/-- handlers without the no_retry guard: (class, handler, is a forwarding / tear-down handler) -/",
              "def unguardedHandlers : List (String × String × Bool) := ["]
    lines.append(",\n".join(f'  ("{c}", "{h}", {"true" if ok else "false"})' for c, h, ok in unguarded) + "]")
    lines += ["", "end FailureRelay", ""]
    path = os.path.join(LEAN_DIR, "RallyGen", "FailureRelay.lean")
    text = "\n".join(lines)
    if not os.path.exists(path) or open(path).read() != text:
        open(path, "w").write(text)
    return {"forwardsTo": forwards, "guarded_handlers": len(guarded), "unguarded_handlers": len(unguarded), "rows": len(rows)}


# ---------------------------------------------------------------------------------------------
# the worker's poll as a decision table: the real Worker.receiveMsg_WakeupMessage on an instance of the real class (created without
# its constructor) for every combination of start_driving / cancel / state of the executor's future / samples queued
# ---------------------------------------------------------------------------------------------
def gen_poll(ctx):
    from harness import sim_race as _sr

    for fut in ("none", "running", "done-ok", "done-exc"):
        for exc in (["RuntimeError"] + _sr.FAULT_CLASSES[:6] if fut == "done-exc" else [None]):
            yield {"actor": "task-executor", "future": fut, "exc": exc}
    for sd in (False, True):
        for cancel in (False, True):
            for fut in ("none", "running", "done-ok", "done-exc"):
                for samples in (0, 3):
                    for exc in (["RuntimeError"] + _sr.FAULT_CLASSES[:6] if fut == "done-exc" else [None]):
                        yield {"start_driving": sd, "cancel": cancel, "future": fut, "samples": samples, "exc": exc}


def _future_of(case):
    from harness import sim_race

    if case["future"] == "none":
        return None
    fut = sim_race.SimFuture()
    if case["future"] != "running":
        fut._done = True
        if case["future"] == "done-exc":
            import importlib

            mod, _, name = case["exc"].rpartition(".")
            cls = getattr(importlib.import_module(mod), name) if mod else getattr(__import__("builtins"), name)
            fut._exc = cls("injected")
    return fut


def run_poll_task_executor(ctx, case):
    import logging

    from esrally.driver import driver

    te = object.__new__(driver.TaskExecutionActor)
    acts = []
    fut = _future_of(case)

    def note_state():
        if fut is not None and te.executor_future is None and "clear-future" not in acts:
            acts.append("clear-future")

    def send(dst, m):
        note_state()
        acts.append({"BenchmarkFailure": "send-failure", "ReadyForWork": "send-ready"}.get(type(m).__name__, "send:" + type(m).__name__))

    te.__dict__.update(executor_future=fut, wakeup_interval=5, task_preparation_actor="prep", logger=logging.getLogger("esrally.driver.driver"), send=send,
                       wakeupAfter=lambda *a, **k: (note_state(), acts.append("rearm")))
    driver.TaskExecutionActor.receiveMsg_WakeupMessage(te, object(), "self")
    note_state()
    m = ctx.model("racectl", "poll-task-executor", {"future": case["future"]})
    if m["r"] != acts:
        ctx.diff("what one wake-up of the task executor does", m["r"], acts)
    if case["future"] == "done-exc" and acts != ["send-failure"]:
        ctx.fail("poll:preparation-failure-not-reported", "a task executor whose task failed did not just report BenchmarkFailure", ["send-failure"], acts)
    ctx.sig(["poll-task-executor", m.get("tags")], nontrivial=True)


def run_poll(ctx, case):
    if case.get("actor") == "task-executor":
        return run_poll_task_executor(ctx, case)
    import logging
    import threading

    from esrally import metrics
    from esrally.driver import driver
    from esrally.track import track
    from harness import sim_race

    w = object.__new__(driver.Worker)
    acts = []
    fut = None
    if case["future"] != "none":
        fut = sim_race.SimFuture()
        if case["future"] != "running":
            fut._done = True
            if case["future"] == "done-exc":
                sc = sim_race.SIM
                fut._exc = {"RuntimeError": RuntimeError}.get(case["exc"]) or None
                if fut._exc is None:
                    import importlib

                    mod, _, name = case["exc"].rpartition(".")
                    fut._exc = getattr(importlib.import_module(mod), name) if mod else getattr(__import__("builtins"), name)
                fut._exc = fut._exc("injected")
    cancel = threading.Event()
    if case["cancel"]:
        cancel.set()
    sampler = driver.Sampler(start_timestamp=0.0, buffer_size=64)
    task = track.Task("t", track.Operation("t", "sim"))
    for i in range(case["samples"]):
        sampler.add(task, 0, metrics.SampleType.Normal, {}, 1000.0 + i, float(i), 0.5, 0.25, 0.125, None, 1, "ops", 0.25, 0.5)
    had_future = fut is not None

    def note_state():
        # state changes the handler made before the action being recorded
        if case["start_driving"] and not w.start_driving and "clear-start-driving" not in acts:
            acts.append("clear-start-driving")
        if had_future and w.executor_future is None and "clear-future" not in acts:
            acts.append("clear-future")

    def send(dst, m):
        note_state()
        acts.append({"BenchmarkCancelled": "send-cancelled", "BenchmarkFailure": "send-failure", "UpdateSamples": None}.get(type(m).__name__, "send:" + type(m).__name__))
        if acts[-1] is None:
            acts.pop()

    real_ship = getattr(driver.Worker.send_samples, "__wrapped__", driver.Worker.send_samples)

    def ship():
        note_state()
        acts.append("ship-samples")
        return real_ship(w)

    w.__dict__.update(start_driving=case["start_driving"], cancel=cancel, executor_future=fut, worker_id=0, driver_actor="driver", wakeup_interval=1,
                      logger=logging.getLogger("esrally.driver.driver"), sampler=sampler, send=send, send_samples=ship,
                      wakeupAfter=lambda *a, **k: (note_state(), acts.append("rearm")), drive=lambda: (note_state(), acts.append("drive")))
    handler = driver.Worker.receiveMsg_WakeupMessage
    handler(w, object(), "self")
    note_state()
    m = ctx.model("racectl", "poll", {"start_driving": case["start_driving"], "cancel": case["cancel"], "future": case["future"]})
    if m["r"] != acts:
        ctx.diff("what one wake-up of the worker does", m["r"], acts)
    # direct oracle (C09): a failed executor is reported and the worker neither drives on nor polls again; a cancellation likewise
    if not case["start_driving"]:
        if case["cancel"] and ("send-cancelled" not in acts or "drive" in acts):
            ctx.fail("poll:cancel-not-reported", "a cancelled worker did not report BenchmarkCancelled (or drove on)", ["ship-samples", "send-cancelled"], acts)
        if not case["cancel"] and case["future"] == "done-exc" and ("send-failure" not in acts or "drive" in acts or "rearm" in acts):
            ctx.fail("poll:failure-not-reported", "a worker whose executor failed did not report BenchmarkFailure, or drove on / polled again", ["ship-samples", "send-failure"], acts)
    ctx.sig(["poll", m.get("tags"), case["samples"] > 0], nontrivial=True)


# ---------------------------------------------------------------------------------------------
# the track preparator's handlers as a decision table: the real TrackPreparationActor handlers (behind their no_retry guards) on an
# instance of the real class created without its constructor, for every status x message x (what the next track processor does)
# ---------------------------------------------------------------------------------------------
def gen_prep_table(ctx):
    from harness import sim_race as _sr

    excs = ["RuntimeError"] + _sr.FAULT_CLASSES[:6]
    i = 0
    for nchildren in (2, 1, 3):
        for st in ("none", "initializing", "running", "complete"):
            for ev in ("failure", "poison"):
                yield {"status": st, "event": ev, "children": nchildren}
            for tl in (True, False):
                yield {"status": st, "event": "ready", "tasks_left": tl, "children": nchildren}
            for last in (True, False):
                if not last and nchildren == 1:
                    continue
                for nxt in ("none-left", "seeds", "raises"):
                    i += 1
                    yield {"status": st, "event": "idle", "last": last, "next": nxt, "children": nchildren, "exc": excs[i % len(excs)]}


def _exc_class(name):
    import importlib

    mod, _, cls = name.rpartition(".")
    return getattr(importlib.import_module(mod), cls) if mod else getattr(__import__("builtins"), cls)


def run_prep_table(ctx, case):
    import logging
    import queue

    import thespian.actors

    from esrally import actor, config
    from esrally.driver import driver
    from esrally.track import track

    T = driver.TrackPreparationActor
    S = T.Status
    names = {None: "none", S.INITIALIZING: "initializing", S.PROCESSOR_RUNNING: "running", S.PROCESSOR_COMPLETE: "complete"}
    status = {v: k for k, v in names.items()}[case["status"]]
    tp = object.__new__(T)
    children = [f"te{i}" for i in range(case["children"])]
    sender = children[-1]
    raw = []

    class Proc:
        def on_prepare_track(self, trk, data_root_dir):
            if case.get("next") == "raises":
                raise _exc_class(case["exc"])("the processor cannot determine its tasks (injected)")
            return [(lambda: None, {})]

    q = queue.Queue()
    if case.get("next") in ("seeds", "raises"):
        q.put(Proc())
    answered = (case["children"] - 1) if case.get("last") else 0
    tp.__dict__.update(status=status, children=list(children), received_responses=[driver.WorkerIdle() for _ in range(answered)], processors=q,
                       tasks=[driver.WorkerTask(lambda: None, {})] if case.get("tasks_left") else [], driver_actor="driver", cfg=config.Config(),
                       track=track.Track(name="t"), data_root_dir="/nonexistent", logger=logging.getLogger("esrally.driver.driver"),
                       send=lambda dst, m: raw.append((dst, m)))
    if case["event"] == "failure":
        msg = actor.BenchmarkFailure("a task failed (injected)", "details")
        T.receiveMsg_BenchmarkFailure(tp, msg, sender)
    elif case["event"] == "poison":
        msg = thespian.actors.PoisonMessage(driver.DoTask(None, None), "details")
        T.receiveMsg_PoisonMessage(tp, msg, sender)
    elif case["event"] == "ready":
        msg = driver.ReadyForWork()
        T.receiveMsg_ReadyForWork(tp, msg, sender)
    else:
        msg = driver.WorkerIdle()
        T.receiveMsg_WorkerIdle(tp, msg, sender)
    sends = []
    loop_dsts = [d for d, m in raw if type(m).__name__ == "StartTaskLoop"]
    for dst, m in raw:
        n = type(m).__name__
        if n == "BenchmarkFailure":
            what = "forward-to-driver" if (dst == "driver" and m is msg) else "failure-to-driver" if dst == "driver" else "failure-to-sender" if dst == sender else f"failure-to:{dst}"
        elif n == "DoTask":
            what = ("do-task" if m.task is not None else "do-nothing") if dst == sender else f"do-task-to:{dst}"
        elif n == "StartTaskLoop":
            what = "start-task-loop" if sorted(loop_dsts) == sorted(children) else "start-task-loop:not-to-every-child"
            if what in sends:
                continue
        elif n == "TrackPrepared":
            what = "track-prepared" if dst == "driver" else f"track-prepared-to:{dst}"
        else:
            what = f"send:{n}"
        sends.append(what)
    impl = {"sends": sends, "status": names.get(tp.status, str(tp.status))}
    args = {k: case[k] for k in ("status", "event", "tasks_left", "last", "next") if k in case}
    m = ctx.model("racectl", "prep-handle", args)
    if m["r"] != impl:
        ctx.diff("what the track preparator does with one message", m["r"], impl)
    # direct oracle (C09): a failure is passed on whatever the preparator is doing; a processor that cannot determine its tasks is reported;
    # the track is declared prepared only when nothing is left to do
    if case["event"] == "failure" and sends != ["forward-to-driver"]:
        ctx.fail("prep:failure-not-forwarded", f"the track preparator (status {case['status']}) did not pass the BenchmarkFailure it received on to the driver",
                 ["forward-to-driver"], sends)
    if case["event"] == "poison" and sends != ["failure-to-driver"]:
        ctx.fail("prep:poison-not-reported", "the track preparator did not turn a PoisonMessage into a BenchmarkFailure for the driver", ["failure-to-driver"], sends)
    if case["event"] == "idle" and case["next"] == "raises" and case["status"] == "running" and case["last"]:
        if len([x for x in sends if x.startswith(("failure-to", "forward-to"))]) != 1 or "track-prepared" in sends:
            ctx.fail("prep:seeding-failure-not-reported", "the next track processor raised when asked for its tasks, but no BenchmarkFailure was sent",
                     ["failure-to-sender"], sends)
    if "track-prepared" in sends and not (case["event"] == "idle" and case["status"] == "running" and case["last"] and case["next"] == "none-left"):
        ctx.fail("prep:prepared-too-early", "TrackPrepared although a processor or a child was still outstanding", [], sends)
    ctx.sig(["prep-handle", case["event"], m.get("tags"), impl["status"]], nontrivial=True)


# ---------------------------------------------------------------------------------------------
# one request: the real execute_single on the registered runner stack (register_runner's wrappers, with and without runner.Retry around a
# scripted innermost runner), every outcome class x error policy, and scripts of answers to the attempts
# ---------------------------------------------------------------------------------------------
DIRECT_OUTS = ["tuple2", "dict-success", "dict-no-key", "dict-fail", "other-value", "conn-error-exact", "conn-error-sub", "conn-timeout", "transport-other",
               "api-error", "key-error", "other-exc"]
RETRY_KINDS = ["dictOk", "dictFail", "nonDict", "sockTimeout", "connError", "connTimeout", "api408", "apiOther", "transportOther", "otherExc"]
KIND2OUT = {"dictOk": "dict-success", "dictFail": "dict-fail", "nonDict": "other-value", "sockTimeout": "other-exc", "connError": "conn-error-exact",
            "connTimeout": "conn-timeout", "api408": "api-error", "apiOther": "api-error", "transportOther": "transport-other", "otherExc": "other-exc"}


def gen_exec(ctx):
    rng = ctx.rng
    for o in DIRECT_OUTS:
        for abort in (True, False):
            yield {"out": o, "abort": abort, "variant": rng.randrange(4)}
    failing = [k for k in RETRY_KINDS if k not in ("dictOk", "nonDict")]
    n = 0
    while n < ctx.budget - 2 * len(DIRECT_OUTS):
        n += 1
        retries = rng.choice([None, 0, 1, 1, 2, 3])
        first = rng.choice(failing)
        budget = (retries or 0) + 1
        ln = rng.choice([budget, budget, budget - 1, budget + 1, 1, rng.randint(0, 5)])
        outs = [first if rng.random() < 0.75 else rng.choice(RETRY_KINDS) for _ in range(max(0, ln))]
        yield {"retry": {"retries": retries, "on_timeout": rng.choice([None, None, True, False]), "on_error": rng.choice([None, None, True, False]),
                         "until": rng.choice([None, None, None, None, False, True]), "ctor": rng.random() < 0.1},
               "outs": outs, "abort": rng.random() < 0.75, "variant": rng.randrange(4)}


def _make_outcome(out, variant):
    """-> (is_exception, value)"""
    import socket

    import elastic_transport
    import elasticsearch

    from esrally import exceptions

    def api(status):
        meta = elastic_transport.ApiResponseMeta(status=status, http_version="1.1", headers=elastic_transport.HttpHeaders(), duration=0.0, node=None)
        return elasticsearch.ApiError("simulated", meta=meta, body={"error": "simulated"})

    v = variant
    return {
        "tuple2": lambda: (False, (3, "docs")),
        "dict-success": lambda: (False, [{"weight": 2, "unit": "docs", "success": True}, {"success": True}, {"weight": 1, "unit": "ops", "success": True, "x": 1}, {"success": 1}][v]),
        "dict-no-key": lambda: (False, [{"weight": 2, "unit": "docs"}, {}, {"took": 3}, {"unit": "ops"}][v]),
        "dict-fail": lambda: (False, [{"weight": 2, "unit": "docs", "success": False}, {"success": False, "error-type": "bulk"}, {"success": False, "error-description": "x"}, {"success": 0}][v]),
        "other-value": lambda: (False, [None, 7, "text", [1, 2, 3]][v]),
        "conn-error-exact": lambda: (True, elasticsearch.ConnectionError("refused")),
        "conn-error-sub": lambda: (True, [elastic_transport.TlsError("tls"), elasticsearch.SSLError("ssl")][v % 2]),
        "conn-timeout": lambda: (True, elasticsearch.ConnectionTimeout("timed out")),
        "transport-other": lambda: (True, [elastic_transport.SerializationError("ser"), elastic_transport.TransportError("plain"), elastic_transport.SniffingError("sniff"),
                                           elastic_transport.TransportError("plain2")][v]),
        "api-error": lambda: (True, api([500, 404, 429, 400][v])),
        "api-408": lambda: (True, api(408)),
        "key-error": lambda: (True, KeyError("missing-param")),
        "other-exc": lambda: (True, [RuntimeError("x"), exceptions.RallyError("x"), ValueError("x"), ZeroDivisionError("x")][v]),
        "sock-timeout": lambda: (True, socket.timeout("timed out")),
    }[out]()


def run_exec(ctx, case):
    import asyncio

    from esrally import exceptions
    from esrally.driver import driver, runner

    log = []

    class Scripted:
        def __init__(self, script):
            self.script = script

        async def __aenter__(self):
            return self

        async def __aexit__(self, *a):
            return False

        async def __call__(self, es, params):
            k = self.script[len(log)] if len(log) < len(self.script) else "dict-success"
            is_exc, val = _make_outcome(k, case["variant"])
            log.append((k, val))
            if is_exc:
                raise val
            return val

        def __repr__(self):
            return "scripted"

    abort = case["abort"]
    params = {"name": "t", "operation-type": "c09-scripted"}
    if "out" in case:
        script = [case["out"]]
        runner.register_runner("c09-scripted", Scripted(script), async_runner=True)
        m = ctx.model("racectl", "exec-single", {"out": case["out"], "abort": abort})
        want = m["r"]
    else:
        r = case["retry"]
        conc = {"sockTimeout": "sock-timeout", "api408": "api-408"}
        script = [conc.get(k, KIND2OUT[k]) for k in case["outs"]]
        runner.register_runner("c09-scripted", runner.Retry(Scripted(script), retry_until_success=True) if r["ctor"] else runner.Retry(Scripted(script)), async_runner=True)
        for key, name in (("retries", "retries"), ("on_timeout", "retry-on-timeout"), ("on_error", "retry-on-error"), ("until", "retry-until-success")):
            if r[key] is not None:
                params[name] = r[key]
        params["retry-wait-period"] = 0
        m = ctx.model("racectl", "retried-request", {"ctor": r["ctor"], "until": r["until"], "retries": r["retries"], "on_error": r["on_error"], "on_timeout": r["on_timeout"],
                                                     "wait": "0/1", "outs": case["outs"] + ["dictOk"], "abort": abort})
        want = m["r"]["result"]
    try:
        async def go():
            return await driver.execute_single(runner.runner_for("c09-scripted"), {"default": None}, params, "abort" if abort else "continue")

        ops, unit, meta = asyncio.run(go())
        got = "sample-ok" if meta["success"] else "sample-failed"
    except exceptions.RallyAssertionError:
        got = "assertion-error"
    except exceptions.SystemSetupError:
        got = "setup-error"
    except BaseException as e:  # noqa
        got = "propagates" if log and e is log[-1][1] else f"raised:{type(e).__name__}"
    finally:
        runner.remove_runner("c09-scripted")
    if got != want:
        ctx.diff("how the request ended (execute_single on the registered runner stack)", want, got)
    if "retry" in case and m["r"]["calls"] != len(log):
        ctx.diff("number of attempts", m["r"]["calls"], len(log))
    # direct oracle (C09), on what the innermost runner was observed to do: under on-error=abort a request ends as a success only if one of
    # its attempts returned something other than an unsuccessful result, and never as a recorded failed request; a refused connection
    # ends it under every policy
    good = [k for k, _ in log if k in ("tuple2", "dict-success", "dict-no-key", "other-value")]
    if abort and got == "sample-ok" and not good and log:
        ctx.fail("request:success-without-a-successful-attempt", "under on-error=abort the request counts as a success although every attempt ended with an error "
                 "or an unsuccessful result", "an exception", [got, [k for k, _ in log]])
    if abort and got == "sample-failed":
        ctx.fail("request:failed-request-recorded-under-abort", "under on-error=abort a failed request was recorded as a sample instead of ending the task", "an exception", [got, [k for k, _ in log]])
    if log and log[-1][0] == "conn-error-exact" and got != "assertion-error":
        ctx.fail("request:fatal-connection-error-survived", "the request's last attempt ended with a refused connection, yet the request did not raise", "assertion-error", got)
    ctx.count("exec:" + got)
    ctx.sig(["exec", "direct" if "out" in case else "retried", m.get("tags"), got], nontrivial=True)


STREAMS = [
    Stream("faulted_races", gen, run, quick=800, thorough=100000, shards=16),
    Stream("worker_poll_table", gen_poll, run_poll, quick=90, thorough=90, shards=1, exhaustive_thorough=True),
    Stream("prep_handler_table", gen_prep_table, run_prep_table, quick=120, thorough=120, shards=1, exhaustive_thorough=True),
    Stream("request_outcomes", gen_exec, run_exec, quick=400, thorough=20000, shards=2),
]
