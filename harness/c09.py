"""C09 — any failure or cancellation ends the race as failed, never as success (real BenchmarkActor/BenchmarkCoordinator + DriverActor +
TrackPreparationActor + TaskExecutionActor + Worker + executor on the race simulator, with injected faults)."""
import ast
import os
import shutil
import tempfile

from harness.framework import Stream, LEAN_DIR, HarnessError
from harness import c01

PROPERTY = "C09"
RULE = ("simulated full races (race control included) with exactly one injected fault: request fails under on-error=abort / fatal connection error, "
        "runner raises, parameter source raises, driver metrics store fails while samples are stored, race control's store fails in bulk_add, "
        "a track preparation task fails, a worker process dies, the user cancels — at a random request index / call index / virtual time — plus "
        "fault-free controls; signature = (fault kind, model branch tags, whether the fault fired before completion)")
TRUSTED = ["the simulator's rules stand for Thespian (incl. ChildActorExited on process death, PoisonMessage after two failures)",
           "MechanicActor is replaced by an acknowledging stub here (the real one is C12)",
           "sender adjacency of the actors (who can send to whom) in the relay table is written by hand; forwarding targets, no_retry guards and PoisonMessage handlers are extracted from the AST"]
ASSUMPTIONS = ["a single fault per race", "race() looks at the first reply only (actor_system.ask)"]

KINDS = ["request-abort", "request-connection", "runner-raises", "params-raise", "driver-store", "rc-store", "prep-task", "kill-worker", "cancel", "none", "outage",
         "request-unsuccessful"]


def _quiet_abandoned_coroutines():
    """executors still suspended when a failed race is torn down are closed by the garbage collector; their `finally` blocks then
    reset a ContextVar outside its context, which Python reports on stderr as "Exception ignored in: <coroutine …>" — noise, not a verdict"""
    import sys

    default = sys.unraisablehook

    def hook(u):
        if "was created in a different Context" in str(u.exc_value) or "There is no current event loop" in str(u.exc_value):
            return
        default(u)

    if getattr(sys.unraisablehook, "__name__", "") != "hook":
        sys.unraisablehook = hook


# faults that make an executor's future fail (the worker reports them at its next wake-up and stays where it is)
EXECUTOR_KINDS = {"request-abort", "request-unsuccessful", "request-connection", "runner-raises", "params-raise"}


def gen(ctx):
    rng = ctx.rng
    for i in range(ctx.budget):
        sc = c01.gen_scenario(rng, small=True)
        sc["full_race"] = True
        sc["max_wakeup_delay"] = min(sc.get("max_wakeup_delay", 0.0), 1.0)
        kind = KINDS[(i + ctx.shard) % len(KINDS)] if rng.random() < 0.8 else rng.choice(KINDS)
        tasks = [t for e in sc["schedule"] for t in ([e["leaf"]] if "leaf" in e else e["par"])]
        t = rng.choice(tasks)
        faults, timed = {}, []
        max_clients = max([1] + [(e["leaf"]["clients"] if "leaf" in e else (e.get("clients") or sum(x["clients"] for x in e["par"]))) for e in sc["schedule"]])
        nworkers = min(max_clients, sc["cores"] * len(sc["hosts"]))
        # mostly in-range indices so that the fault really fires; sometimes out of range (then the race must simply succeed)
        cidx = lambda: rng.randrange(max(1, min(t.get("clients", 1), max_clients))) if rng.random() < 0.85 else rng.randrange(4)
        ridx = lambda: rng.randrange(max(1, t.get("iterations") or 2)) if rng.random() < 0.85 else rng.randrange(3)
        if kind == "request-abort":
            sc["on_error"] = "abort"
            faults[("request", t["name"], cidx(), ridx())] = "api-error"
        elif kind == "request-unsuccessful":
            sc["on_error"] = "abort"
            faults[("request", t["name"], cidx(), ridx())] = "unsuccessful-result"
        elif kind == "request-connection":
            faults[("request", t["name"], cidx(), ridx())] = "connection-error"
        elif kind == "runner-raises":
            faults[("request", t["name"], cidx(), ridx())] = "runner-raises"
        elif kind == "params-raise":
            faults[("params", t["name"], rng.randrange(max(1, t.get("clients", 1))), ridx())] = True
        elif kind == "driver-store":
            faults[("store", rng.randint(1, 12))] = True
        elif kind == "rc-store":
            faults[("rc-store", rng.randint(1, len(sc["schedule"]) + 1))] = True
        elif kind == "prep-task":
            sc["prep_tasks"] = rng.randint(1, 3)
            faults[("prep", rng.randrange(sc["prep_tasks"]))] = True
        elif kind == "kill-worker":
            timed.append([rng.choice([0.125, 0.3, 0.6, 1.1, 2.0, 4.0]), "kill-worker", rng.randrange(nworkers) if rng.random() < 0.9 else 3])
        elif kind == "cancel":
            timed.append([rng.choice([0.0, 0.25, 0.5, 1.0, 2.0, 4.0]), "cancel", None])
        elif kind == "outage":
            # the cluster becomes unreachable and stays so: every later request (and every call of the driver's own client) fails
            sc["outage_from"] = rng.choice([0.0, 1.125, 1.5, 2.25, 3.0, 5.0])
        # the class of the injected exception must not matter (time-outs, OS errors, Rally's own errors, …)
        from harness import sim_race as _sr

        sc["fault_exc"] = rng.choice(_sr.FAULT_CLASSES) if rng.random() < 0.6 else "RuntimeError"
        # configuration that changes what the actors do on start-up and shut-down
        sc["profiling"] = rng.random() < 0.08  # --enable-driver-profiling wraps every executor
        sc["api_keys"] = rng.random() < 0.4
        sc["faults"] = {repr(k): v for k, v in faults.items()}
        sc["timed"] = timed
        # how long the system keeps running after the caller of race() got its first reply (in reality until its ActorExitRequest
        # takes effect): a moment, a few seconds, or until nothing is left to do
        yield {"scenario": sc, "seed": rng.randrange(1 << 30), "kind": kind, "grace": rng.choice([0.5, 3.0, 3.0, None, None])}


def run(ctx, case):
    from harness import sim_race

    _quiet_abandoned_coroutines()
    sc = dict(case["scenario"])
    sc["faults"] = {ast.literal_eval(k): v for k, v in sc.get("faults", {}).items()}
    tmp = tempfile.mkdtemp(prefix="c09-")
    sc["root_dir"] = tmp
    try:
        sim = sim_race.Sim(sc, seed=case["seed"])
        sim.start()
        grace = {"t": None}

        def until(s):
            if s.ss.inbox and grace["t"] is None:
                grace["t"] = s.clock
            # after the first reply give the system a little more virtual time (a later Success must not change the verdict)
            if grace["t"] is None:
                return False
            g = case.get("grace", 3.0)
            if type(s.ss.inbox[0]).__name__ == "Success" and not s.channels and not s.executors and s.clock > grace["t"]:
                return True  # the race is over and torn down
            # (workers and the driver re-arm their wake-ups for ever, so "nothing left to do" is a time bound: the whole race's budget)
            return s.clock > grace["t"] + (c01.budget(sc) if g is None else g)

        res = sim.run(max_events=80000, max_vtime=c01.budget(sc) * (2 if case.get("grace", 3.0) is None else 1) + 30, until=until)
        kind = case["kind"]
        replies = [type(m).__name__ for m in sim.ss.inbox]
        # messages handled by the real BenchmarkActor, in order
        rc_msgs, complete_at = [], None
        for e in sim.trace:
            # Setup starts the race; ChildActorExited (the driver actor leaving after ActorExitRequest) goes to receiveUnrecognizedMessage
            if e["ev"] == "deliver" and e["dst"] == "rc" and e["msg"] not in ("Setup", "ChildActorExited"):
                rc_msgs.append(e["msg"])
                if e["msg"] == "BenchmarkComplete" and complete_at is None:
                    complete_at = e["t"]
        fired = sim.fault_time is not None
        before_completion = fired and (complete_at is None or sim.fault_time < complete_at or kind == "rc-store")
        stored_results = any(sim.results_stored_flags()) if hasattr(sim, "results_stored_flags") else any(sim.results_stored)
        # ---------------- correspondence with the RaceCtl model ----------------
        known = {"EngineStarted", "PreparationComplete", "TaskFinished", "BenchmarkComplete", "BenchmarkFailure", "PoisonMessage", "BenchmarkCancelled", "EngineStopped"}
        tags = []
        if all(m in known for m in rc_msgs):
            m = ctx.model("racectl", "run", {"msgs": rc_msgs})
            tags = m.get("tags", [])
            # a handler of race control that raised has not produced its usual effects; the model is told through the message stream only
            if m["r"]["replies"] != replies:
                ctx.diff("replies to the start sender", m["r"]["replies"], replies)
            if m["r"]["resultsStored"] != stored_results and kind != "rc-store":
                ctx.diff("results stored", m["r"]["resultsStored"], stored_results)
        else:
            ctx.diff("race control received an unexpected message", sorted(known), [x for x in rc_msgs if x not in known])
        # ---------------- direct oracle ----------------
        cls = kind
        if before_completion:
            want = "BenchmarkCancelled" if kind == "cancel" else "BenchmarkFailure"
            if not replies:
                ctx.fail(cls + ":no-notification", f"the fault fired at t={sim.fault_time} but the caller of race() never got a reply ({res})", want, replies)
            elif replies[0] == "Success":
                ctx.fail(cls + ":reported-success", "a race with a fault was reported as successfully completed", want, replies)
            elif replies[0] != want and not (kind == "cancel" and replies[0] == "BenchmarkFailure"):
                ctx.fail(cls + ":wrong-first-reply", "unexpected first reply", want, replies)
            else:
                latency = sim.ss.times[0] - sim.fault_time
                bound = 8.0 + 2 * sc.get("max_wakeup_delay", 0.0) + (0.0 if sc.get("test_mode", True) else 6.0)
                if latency > bound:
                    ctx.fail(cls + ":late-notification", "failure notification took longer than the bound", bound, latency)
            if stored_results or sim.summaries:
                ctx.fail(cls + ":results-after-fault", "final results were stored or printed although the race had a fault / was cancelled", [False, 0], [stored_results, len(sim.summaries)])
            racefile = os.path.join(tmp, "races", "6ebc6e53-ee20-4b0c-99b4-09697987e9f4", "race.json")
            if os.path.exists(racefile):
                import json

                if json.load(open(racefile)).get("results"):
                    ctx.fail(cls + ":race-json-results", "race.json contains results although the race had a fault", None, "results present")
        elif not fired:
            if replies[:1] != ["Success"] or not stored_results or len(sim.summaries) != 1:
                ctx.fail("fault-free:not-success", "a race without any fault did not end with Success + stored results + one summary", ["Success", True, 1], [replies, stored_results, len(sim.summaries)])
        # ---------------- a worker whose executor failed never moves on, so no barrier opens after the failure (Lean: C09.failed_executor_blocks_completion) ----
        if fired and kind in EXECUTOR_KINDS:
            late = [[e["t"], type(m).__name__] for e in sim.trace if e["ev"] in ("deliver", "wakeup") and e.get("t", 0.0) > sim.fault_time
                    and (e.get("dst") if e["ev"] == "deliver" else e.get("actor")) == "driver"
                    for _dst, m in e.get("out", []) if type(m).__name__ in ("TaskFinished", "BenchmarkComplete")]
            if late:
                ctx.fail(cls + ":step-completed-after-executor-failure", f"an executor failed at t={sim.fault_time}, yet the driver afterwards declared a step "
                         "(or the benchmark) complete: the failed worker must never reach its join point", [], late[:4])
            ctx.count("executor-failures-checked-for-late-completion")
        ctx.count("kind:" + kind + (":fired" if fired else ":not-fired"))
        ctx.sig([kind, sorted(tags), fired, before_completion], nontrivial=True)
    finally:
        shutil.rmtree(tmp, ignore_errors=True)


# ---------------------------------------------------------------------------------------------
# translator: the failure relay table, regenerated from the source on every run
# ---------------------------------------------------------------------------------------------
ATTR2ACTOR = {"driver_actor": "driver", "task_preparation_actor": "trackPreparator", "benchmark_actor": "benchmark", "start_sender": "startSender"}
CLASS2ACTOR = {"TaskExecutionActor": "taskExecutor", "TrackPreparationActor": "trackPreparator", "Worker": "worker", "DriverActor": "driver", "BenchmarkActor": "benchmark"}
# who can send a message to whom (hand-written adjacency, see TRUSTED); a WakeupMessage is "sent" by the actor itself
SENDERS = {"taskExecutor": ["trackPreparator", "taskExecutor"], "trackPreparator": ["driver", "taskExecutor", "trackPreparator"],
           "worker": ["driver", "worker"], "driver": ["benchmark", "worker", "trackPreparator", "driver"], "benchmark": ["startSender", "driver", "benchmark"]}
TEARDOWN = {"receiveMsg_BenchmarkFailure", "receiveMsg_BenchmarkCancelled", "receiveMsg_PoisonMessage", "receiveMsg_ActorExitRequest", "receiveMsg_ChildActorExited"}


def translate(repo_root):
    import ast as pyast

    forwards, guarded, unguarded = {}, [], []
    for rel in ("esrally/driver/driver.py", "esrally/racecontrol.py"):
        tree = pyast.parse(open(os.path.join(repo_root, rel)).read())
        for node in tree.body:
            if isinstance(node, pyast.ClassDef) and node.name in CLASS2ACTOR:
                actor = CLASS2ACTOR[node.name]
                for fn in node.body:
                    if not isinstance(fn, pyast.FunctionDef) or not fn.name.startswith("receiveMsg_"):
                        continue
                    is_guarded = any("no_retry" in pyast.unparse(d) for d in fn.decorator_list)
                    if fn.name == "receiveMsg_BenchmarkFailure":
                        tgt = None
                        for call in pyast.walk(fn):
                            if isinstance(call, pyast.Call) and pyast.unparse(call.func) == "self.send" and call.args:
                                a0 = pyast.unparse(call.args[0])
                                if a0.startswith("self.") and a0[5:] in ATTR2ACTOR:
                                    tgt = ATTR2ACTOR[a0[5:]]
                        if tgt is None:
                            raise HarnessError(f"{node.name}.receiveMsg_BenchmarkFailure does not forward to a known actor")
                        forwards[actor] = tgt
                    if is_guarded:
                        guarded.append((f"{node.name}.{fn.name}", actor))
                    else:
                        unguarded.append((node.name, fn.name, fn.name in TEARDOWN))
    for a in CLASS2ACTOR.values():
        if a not in forwards:
            raise HarnessError(f"actor {a} has no receiveMsg_BenchmarkFailure")
    lines = ["import RallyModel.RaceCtl", "/-! GENERATED by harness/c09.py:translate from esrally/driver/driver.py and esrally/racecontrol.py — do not edit -/",
             "namespace FailureRelay", "open RaceCtl", "", "def forwardsTo : Actor → Option Actor"]
    for a, t in sorted(forwards.items()):
        lines.append(f"  | .{a} => some .{t}")
    lines.append("  | .startSender => none")
    lines += ["", "/-- (guarded handler, actor the no_retry guard sends the BenchmarkFailure to = a possible sender of the message) -/",
              "def guardedHandlerSenders : List (String × Actor) := ["]
    rows = []
    for name, actor in guarded:
        for snd in SENDERS[actor]:
            rows.append(f'  ("{name}", .{snd})')
    lines.append(",\n".join(rows) + "]")
    lines += ["", "/-- handlers without the no_retry guard: (class, handler, is a forwarding / tear-down handler) -/",
              "def unguardedHandlers : List (String × String × Bool) := ["]
    lines.append(",\n".join(f'  ("{c}", "{h}", {"true" if ok else "false"})' for c, h, ok in unguarded) + "]")
    lines += ["", "end FailureRelay", ""]
    path = os.path.join(LEAN_DIR, "RallyGen", "FailureRelay.lean")
    text = "\n".join(lines)
    if not os.path.exists(path) or open(path).read() != text:
        open(path, "w").write(text)
    return {"forwardsTo": forwards, "guarded_handlers": len(guarded), "unguarded_handlers": len(unguarded), "rows": len(rows)}


# ---------------------------------------------------------------------------------------------
# the worker's poll as a decision table: the real Worker.receiveMsg_WakeupMessage on an instance of the real class (created without
# its constructor) for every combination of start_driving / cancel / state of the executor's future / samples queued
# ---------------------------------------------------------------------------------------------
def gen_poll(ctx):
    from harness import sim_race as _sr

    for fut in ("none", "running", "done-ok", "done-exc"):
        for exc in (["RuntimeError"] + _sr.FAULT_CLASSES[:6] if fut == "done-exc" else [None]):
            yield {"actor": "task-executor", "future": fut, "exc": exc}
    for sd in (False, True):
        for cancel in (False, True):
            for fut in ("none", "running", "done-ok", "done-exc"):
                for samples in (0, 3):
                    for exc in (["RuntimeError"] + _sr.FAULT_CLASSES[:6] if fut == "done-exc" else [None]):
                        yield {"start_driving": sd, "cancel": cancel, "future": fut, "samples": samples, "exc": exc}


def _future_of(case):
    from harness import sim_race

    if case["future"] == "none":
        return None
    fut = sim_race.SimFuture()
    if case["future"] != "running":
        fut._done = True
        if case["future"] == "done-exc":
            import importlib

            mod, _, name = case["exc"].rpartition(".")
            cls = getattr(importlib.import_module(mod), name) if mod else getattr(__import__("builtins"), name)
            fut._exc = cls("injected")
    return fut


def run_poll_task_executor(ctx, case):
    import logging

    from esrally.driver import driver

    te = object.__new__(driver.TaskExecutionActor)
    acts = []
    fut = _future_of(case)

    def note_state():
        if fut is not None and te.executor_future is None and "clear-future" not in acts:
            acts.append("clear-future")

    def send(dst, m):
        note_state()
        acts.append({"BenchmarkFailure": "send-failure", "ReadyForWork": "send-ready"}.get(type(m).__name__, "send:" + type(m).__name__))

    te.__dict__.update(executor_future=fut, wakeup_interval=5, task_preparation_actor="prep", logger=logging.getLogger("esrally.driver.driver"), send=send,
                       wakeupAfter=lambda *a, **k: (note_state(), acts.append("rearm")))
    driver.TaskExecutionActor.receiveMsg_WakeupMessage(te, object(), "self")
    note_state()
    m = ctx.model("racectl", "poll-task-executor", {"future": case["future"]})
    if m["r"] != acts:
        ctx.diff("what one wake-up of the task executor does", m["r"], acts)
    if case["future"] == "done-exc" and acts != ["send-failure"]:
        ctx.fail("poll:preparation-failure-not-reported", "a task executor whose task failed did not just report BenchmarkFailure", ["send-failure"], acts)
    ctx.sig(["poll-task-executor", m.get("tags")], nontrivial=True)


def run_poll(ctx, case):
    if case.get("actor") == "task-executor":
        return run_poll_task_executor(ctx, case)
    import logging
    import threading

    from esrally import metrics
    from esrally.driver import driver
    from esrally.track import track
    from harness import sim_race

    w = object.__new__(driver.Worker)
    acts = []
    fut = None
    if case["future"] != "none":
        fut = sim_race.SimFuture()
        if case["future"] != "running":
            fut._done = True
            if case["future"] == "done-exc":
                sc = sim_race.SIM
                fut._exc = {"RuntimeError": RuntimeError}.get(case["exc"]) or None
                if fut._exc is None:
                    import importlib

                    mod, _, name = case["exc"].rpartition(".")
                    fut._exc = getattr(importlib.import_module(mod), name) if mod else getattr(__import__("builtins"), name)
                fut._exc = fut._exc("injected")
    cancel = threading.Event()
    if case["cancel"]:
        cancel.set()
    sampler = driver.Sampler(start_timestamp=0.0, buffer_size=64)
    task = track.Task("t", track.Operation("t", "sim"))
    for i in range(case["samples"]):
        sampler.add(task, 0, metrics.SampleType.Normal, {}, 1000.0 + i, float(i), 0.5, 0.25, 0.125, None, 1, "ops", 0.25, 0.5)
    had_future = fut is not None

    def note_state():
        # state changes the handler made before the action being recorded
        if case["start_driving"] and not w.start_driving and "clear-start-driving" not in acts:
            acts.append("clear-start-driving")
        if had_future and w.executor_future is None and "clear-future" not in acts:
            acts.append("clear-future")

    def send(dst, m):
        note_state()
        acts.append({"BenchmarkCancelled": "send-cancelled", "BenchmarkFailure": "send-failure", "UpdateSamples": None}.get(type(m).__name__, "send:" + type(m).__name__))
        if acts[-1] is None:
            acts.pop()

    real_ship = getattr(driver.Worker.send_samples, "__wrapped__", driver.Worker.send_samples)

    def ship():
        note_state()
        acts.append("ship-samples")
        return real_ship(w)

    w.__dict__.update(start_driving=case["start_driving"], cancel=cancel, executor_future=fut, worker_id=0, driver_actor="driver", wakeup_interval=1,
                      logger=logging.getLogger("esrally.driver.driver"), sampler=sampler, send=send, send_samples=ship,
                      wakeupAfter=lambda *a, **k: (note_state(), acts.append("rearm")), drive=lambda: (note_state(), acts.append("drive")))
    handler = driver.Worker.receiveMsg_WakeupMessage
    handler(w, object(), "self")
    note_state()
    m = ctx.model("racectl", "poll", {"start_driving": case["start_driving"], "cancel": case["cancel"], "future": case["future"]})
    if m["r"] != acts:
        ctx.diff("what one wake-up of the worker does", m["r"], acts)
    # direct oracle (C09): a failed executor is reported and the worker neither drives on nor polls again; a cancellation likewise
    if not case["start_driving"]:
        if case["cancel"] and ("send-cancelled" not in acts or "drive" in acts):
            ctx.fail("poll:cancel-not-reported", "a cancelled worker did not report BenchmarkCancelled (or drove on)", ["ship-samples", "send-cancelled"], acts)
        if not case["cancel"] and case["future"] == "done-exc" and ("send-failure" not in acts or "drive" in acts or "rearm" in acts):
            ctx.fail("poll:failure-not-reported", "a worker whose executor failed did not report BenchmarkFailure, or drove on / polled again", ["ship-samples", "send-failure"], acts)
    ctx.sig(["poll", m.get("tags"), case["samples"] > 0], nontrivial=True)


STREAMS = [
    Stream("faulted_races", gen, run, quick=800, thorough=100000, shards=16),
    Stream("worker_poll_table", gen_poll, run_poll, quick=90, thorough=90, shards=1, exhaustive_thorough=True),
]
