"""C05 — iterations, time periods, warm-up, progress and pacing follow the task spec."""
import re
from fractions import Fraction

from harness import exec_common as ec
from harness.framework import Stream

PROPERTY = "C05"
RULE = ("one client's real schedule_for / ScheduleHandle / loop controls / schedulers / AsyncExecutor on a virtual-time loop from generated "
        "task parameters (warm-up/measurement iterations or time periods, clients, target throughput or interval and unit, weight, ramp-up, "
        "scheduler, cancel/complete events) and per-request plans; plus Task.target_throughput on generated strings/numbers, "
        "UnitAwareScheduler feedback sequences and ramp_up_wait_time in IEEE arithmetic; non-trivial = at least two samples / an accepted "
        "throughput / at least two feedback rounds; signature = model branch tags + result class + exact-or-rounded arithmetic")
TRUSTED = [
    "the virtual-time loop (harness/sim_vloop.py) and the `time` shim; random.expovariate replaced by the per-request oracle list",
    "python `re` semantics of THROUGHPUT_PATTERN are modelled by a hand-written deterministic matcher (domain: ASCII)",
    "theorems are stated for exact rational time (r = id); IEEE rounding is covered by the correspondence in `dbl` mode",
]
ASSUMPTIONS = [
    "iterations >= 1 and time-period >= 1 when given (track schema); target throughput > 0; Poisson draws >= 0; durations >= 0",
    "custom (plugin) schedulers are out of scope: deterministic, poisson, unthrottled only",
    "the ramp-up clause is evaluated for elements whose explicit `clients` is not below the sum of their sub-tasks' clients (no over-commit)",
    "the specification of a task is what its parameters say when it is scheduled (after track processors such as --test-mode)",
    "time-based stop is read as: every request is preceded by a loop-control check before warmup+period; at most one request per client is issued later",
]


def gen_exact(ctx):
    for _ in range(ctx.budget):
        case = ec.gen_case(ctx.rng, True, "loop")
        yield embed(ctx.rng, case, 0.5, 0.5) if ctx.rng.random() < 0.3 else case


def gen_float(ctx):
    for _ in range(ctx.budget):
        case = ec.gen_case(ctx.rng, False, "loop")
        yield embed(ctx.rng, case, 0.5, 0.5) if ctx.rng.random() < 0.3 else case


def gen_boundary(ctx):
    """clock lands exactly on the warm-up boundary / the deadline / the scheduled slot: no client-side overhead, service
    times that divide the periods, weights that divide the interval"""
    rng = ctx.rng
    for _ in range(ctx.budget):
        case = ec.gen_case(rng, True, "loop")
        t = case["task"]
        step = rng.choice([Fraction(1, 4), Fraction(1, 2), Fraction(1), Fraction(1, 8)])
        if rng.random() < 0.7:
            t["warmup_it"] = t["iters"] = None
            wt, pt = rng.choice([(0, 1), (1, 1), (1, 2), (2, 2), (0, 2), (1, 3)])
            t["warmup_t"] = {"int": wt} if (wt or rng.random() < 0.5) else None
            t["period"] = {"int": pt}
            t["ramp_up"] = None
            n = int((wt + pt) / step) + 3
            while len(case["reqs"]) < n:
                case["reqs"].append(dict(case["reqs"][0]) if case["reqs"] else {"gen": "0/1", "pre": "0/1", "service": "0/1", "post": "0/1", "draw": "0/1",
                                    "out": {"k": "tuple", "w": 1, "unit": "ops"}, "rc": None, "rp": None, "sp": None})
            case["reqs"] = case["reqs"][:n]
            case["cancel_at"] = case["complete_at"] = None
        for q in case["reqs"]:
            q["gen"] = q["pre"] = q["post"] = "0/1"
            q["service"] = ec.qs(step if rng.random() < 0.85 else step / 2)
            if q["out"]["k"] not in ("tuple", "dict", "none"):
                q["out"] = {"k": "tuple", "w": 1, "unit": "ops"}
        case["t0"] = ec.qs(Fraction(rng.randrange(0, 64)))
        yield case


def gen_schedule_spec(rng, max_elems=4):
    """a whole challenge schedule as the allocator sees it: leaf tasks and parallel structures of different widths, optional
    explicit `clients` on a parallel (equal to / above / below the sum of its sub-tasks = over-commit)"""
    elems = []
    nid = 0
    for _ in range(rng.randrange(1, max_elems + 1)):
        if rng.random() < 0.5:
            elems.append({"leaf": True, "clients": None, "tasks": [{"id": nid, "clients": rng.choice([1, 1, 2, 2, 3, 4, 5, 8]), "cp": False, "acp": False}]})
            nid += 1
        else:
            subs = []
            for _ in range(rng.randrange(1, 4)):
                subs.append({"id": nid, "clients": rng.choice([1, 1, 2, 2, 3, 4]), "cp": False, "acp": False})
                nid += 1
            if rng.random() < 0.15:
                rng.choice(subs)["cp"] = True
            elif rng.random() < 0.1:
                rng.choice(subs)["acp"] = True
            width = sum(x["clients"] for x in subs)
            r = rng.random()
            ov = None if r < 0.6 else (width if r < 0.8 else (width + rng.randrange(1, 4) if r < 0.9 else max(1, width - rng.randrange(1, 3))))
            elems.append({"leaf": False, "clients": ov, "tasks": subs})
    return elems


def gen_task_ops(rng, case):
    """what happens to the Task object between loading and scheduling: reads of target_throughput, parameter rewrites, --test-mode"""
    def new_tput():
        unit = "ops"
        tt = ((case["task"].get("tput") or {}).get("tt") or {})
        if tt.get("kind") == "str" and " " in tt["s"] and tt["s"].endswith("/s"):
            unit = tt["s"].split(" ")[1][:-2]
        v = rng.choice([1, 2, 4, 8, 0.5, 16, 3, 10, 100])
        r = rng.random()
        if r < 0.6:
            return {"set_tt": {"kind": "str", "s": f"{v} {unit}/s"}}
        if r < 0.75:
            return {"set_tt": {"kind": "int", "v": str(int(v) or 1)}}
        if r < 0.85:
            return {"set_tt": None}
        if r < 0.95:
            return {"set_ti": {"kind": "float", "q": ec.qs(Fraction(rng.choice([0.25, 0.5, 1, 2])))}}
        return {"set_ti": None}

    r = rng.random()
    if r < 0.25:
        return ["read", "test_mode"]
    if r < 0.4:
        return ["test_mode"]
    if r < 0.65:
        return ["read", new_tput()]
    ops = []
    for _ in range(rng.randrange(1, 5)):
        x = rng.random()
        ops.append("read" if x < 0.4 else ("test_mode" if x < 0.55 else new_tput()))
    return ops


def embed(rng, case, ops_p=0.7, alloc_p=0.7):
    """put the case's task into a whole schedule (its TaskAllocation then comes from the real Allocator) and / or let the
    Task object go through reads, rewrites and the real TestModeTrackProcessor before it is scheduled"""
    if rng.random() < alloc_p:
        sched = gen_schedule_spec(rng)
        subs = [x for e in sched for x in e["tasks"]]
        focus = rng.choice(subs)
        case["alloc"] = {"schedule": sched, "focus": focus["id"], "k": rng.randrange(0, focus["clients"])}
        case["task"]["completes_parent"], case["task"]["any_completes_parent"] = focus["cp"], focus["acp"]
        case["task"]["clients"] = focus["clients"]
    if rng.random() < ops_p:
        case["task_ops"] = gen_task_ops(rng, case)
    return case


def gen_lifecycle(ctx):
    """throttled / ramped-up tasks taken from whole schedules through the real Allocator, after the Task object has been read,
    rewritten and run through --test-mode"""
    rng = ctx.rng
    for _ in range(ctx.budget):
        exact = rng.random() < 0.6
        case = ec.gen_case(rng, exact, "loop")
        t = case["task"]
        if rng.random() < 0.5 and t["warmup_it"] is None and t["iters"] is None:
            t["ramp_up"] = {"int": rng.choice([1, 2, 4, 8, 10])}
            if t["warmup_t"] is None:
                t["warmup_t"] = {"int": rng.choice([8, 10, 16])}
        yield embed(rng, case)


# ------------------------------------------------------------------------------------------------
# loop-control keys read from track files by the real reader (spellings, defaults of `parallel` elements)
# ------------------------------------------------------------------------------------------------
def _spelling(rng, kind, base):
    """one way a track file can say something about a key: left out, null, an explicit zero (0 / 0.0), a value (int / float)"""
    r = rng.random()
    if r < 0.3:
        return "absent"
    if r < 0.36:
        return None
    if r < 0.62:
        return {"int": 0} if rng.random() < 0.6 else {"float": "0/1"}
    v = base if rng.random() < 0.6 else rng.choice([1, 2, 3, 4])
    if kind == "time" and rng.random() < 0.25:
        return {"float": ec.qs(Fraction(v) + Fraction(1, 2))}
    return {"int": v} if rng.random() < 0.85 else {"float": ec.qs(Fraction(v))}


def gen_track_spec(rng, n_tasks, force_parallel=None):
    """loop-control keys at `parallel` level and at task level, every key in every spelling, mostly consistent combinations
    (iteration-based or time-based), sometimes mixed (the reader must reject those)"""
    parallel = (rng.random() < 0.75) if force_parallel is None else force_parallel
    mode = rng.choice(["iter", "iter", "time", "time", "mixed"])
    keys = {"iter": ["warmup-iterations", "iterations"], "time": ["warmup-time-period", "time-period"], "mixed": list(ec.LOOP_KEYS[:4])}[mode]
    base = {"warmup-iterations": rng.choice([1, 2, 3, 5]), "iterations": rng.choice([1, 2, 4, 6]), "warmup-time-period": rng.choice([1, 2, 4]),
            "time-period": rng.choice([1, 2, 3]), "ramp-up-time-period": rng.choice([1, 2])}
    par = None
    if parallel:
        par = {}
        for k in keys:
            sp = _spelling(rng, "time" if "time" in k else "iter", base[k])
            if sp != "absent" and (mode != "mixed" or rng.random() < 0.5):
                par[k] = sp
        if mode == "time" and rng.random() < 0.3:
            par["ramp-up-time-period"] = {"int": base["ramp-up-time-period"]}
            par.setdefault("warmup-time-period", {"int": base["warmup-time-period"] + 1})
            if par["warmup-time-period"] is None or ec.num(par["warmup-time-period"]) < base["ramp-up-time-period"]:
                par["warmup-time-period"] = {"int": base["warmup-time-period"] + 1}
    tasks = []
    for _ in range(n_tasks if parallel else 1):
        d = {}
        for k in keys:
            sp = _spelling(rng, "time" if "time" in k else "iter", base[k])
            if sp != "absent" and (mode != "mixed" or rng.random() < 0.4):
                d[k] = sp
        if rng.random() < 0.04:
            d["ramp-up-time-period"] = {"int": base["ramp-up-time-period"]}
        if par is None and mode == "time" and rng.random() < 0.2 and d.get("warmup-time-period") not in (None,) and "warmup-time-period" in d \
                and ec.num(d["warmup-time-period"]) >= base["ramp-up-time-period"]:
            d["ramp-up-time-period"] = {"int": base["ramp-up-time-period"]}
        tasks.append(d)
    return par, tasks


def gen_track_cases(ctx):
    """a task read from a generated track file by the real reader, its allocation from the real Allocator, then schedule_for and the
    executor: request count, warm-up flags, stop time and progress against what the FILE says (explicit 0 / 0.0 / null / absent
    at task level against values at parallel level and vice versa)"""
    rng = ctx.rng
    for _ in range(ctx.budget):
        exact = rng.random() < 0.7
        case = ec.gen_case(rng, exact, "loop")
        n_tasks = rng.randrange(1, 4)
        par, tasks = gen_track_spec(rng, n_tasks)
        clients = [rng.choice([1, 1, 2, 3]) for _ in tasks]
        focus = rng.randrange(0, len(tasks))
        width = sum(clients)
        pc = None if (par is None or rng.random() < 0.7) else width
        case["track"] = {"parallel": par, "tasks": tasks, "clients": clients, "focus": focus, "parallel_clients": pc}
        case["alloc"] = {"schedule": [{"leaf": par is None, "clients": pc, "tasks": [{"id": i, "clients": c, "cp": False, "acp": False} for i, c in enumerate(clients)]}],
                         "focus": focus, "k": rng.randrange(0, clients[focus])}
        case["task"]["clients"] = clients[focus]
        case["task"]["completes_parent"] = case["task"]["any_completes_parent"] = False
        # enough requests for whatever the file specifies, short ones
        while len(case["reqs"]) < 24:
            case["reqs"].append(dict(case["reqs"][0]) if case["reqs"] else {"gen": "0/1", "pre": "0/1", "service": "1/4", "post": "0/1", "draw": "1/8",
                                "out": {"k": "tuple", "w": 1, "unit": "ops"}, "rc": None, "rp": None, "sp": None})
        for q in case["reqs"]:
            if Fraction(q["service"]) > 1:
                q["service"] = "1/2"
            if Fraction(q["service"]) == 0 and rng.random() < 0.7:
                q["service"] = "1/4"
        if rng.random() < 0.25:
            case["task_ops"] = gen_task_ops(rng, case)
        yield case


def gen_reader(ctx):
    rng = ctx.rng
    for _ in range(ctx.budget):
        par, tasks = gen_track_spec(rng, rng.randrange(1, 5))
        yield {"parallel": par, "tasks": tasks, "clients": [1] * len(tasks), "focus": 0, "parallel_clients": None}


def run_reader(ctx, case):
    """every task of a generated schedule element through the real reader vs. the model vs. what the file says"""
    import json

    from esrally.track import loader

    m = ctx.model("exec", "read_track", {"parallel": case["parallel"], "tasks": case["tasks"]})
    fake = {"task": {"sched": None, "tput": None}, "track": case}
    try:
        trk = loader.TrackSpecificationReader()("c05-track", json.loads(ec.track_json(fake, "bulk")), "/tmp")
        leaves = [lt for el in trk.challenges[0].schedule for lt in el]
        impl = {"r": [[None if v is None else str(Fraction(v)) for v in (lt.warmup_iterations, lt.iterations, lt.warmup_time_period, lt.time_period, lt.ramp_up_time_period)]
                      for lt in leaves]}
    except loader.TrackSyntaxError:
        impl = {"err": "TrackSyntaxError"}
    mm = {"r": [[None if v is None else str(Fraction(v)) for v in row] for row in m["r"]]} if "r" in m else {"err": m["err"]}
    if mm != impl:
        ctx.diff("TrackSpecificationReader loop-control keys", mm, impl)
    if "r" in impl:
        par = case["parallel"] or {}
        for i, spec in enumerate(case["tasks"]):
            for j, k in enumerate(ec.LOOP_KEYS):
                v = spec[k] if k in spec else par.get(k)
                want = None if v is None else str(Fraction(v["int"]) if "int" in v else Fraction(v["float"]))
                if impl["r"][i][j] != want:
                    ctx.fail("track-file-key", f"task {i}: [{k}] is spelled {spec.get(k, 'absent')!r} (parallel element: {par.get(k, 'absent')!r}) but the task got another value",
                             want, impl["r"][i][j])
    zero_over_default = any(k in spec and spec[k] is not None and Fraction(spec[k].get("int", 0) if "int" in spec[k] else spec[k]["float"]) == 0
                            and (case["parallel"] or {}).get(k) not in (None,) and k in (case["parallel"] or {}) for spec in case["tasks"] for k in ec.LOOP_KEYS)
    if zero_over_default:
        ctx.count("explicit-zero-over-parallel-default")
    ctx.sig([m.get("tags"), case["parallel"] is None, zero_over_default], nontrivial="r" in impl)


# ------------------------------------------------------------------------------------------------
# iteration totals well beyond the usual handful: the schedule alone, through schedule_for
# ------------------------------------------------------------------------------------------------
def gen_totals(ctx):
    import math

    rng = ctx.rng
    for _ in range(ctx.budget):
        total = int(round(math.exp(rng.uniform(0, math.log(6000)))))
        r = rng.random()
        warm = 0 if r < 0.3 else (rng.randrange(0, total) if r < 0.9 else total - 1)
        iters = max(1, total - warm)
        yield {"warmup_it": rng.choice([None, 0]) if warm == 0 and rng.random() < 0.5 else warm, "iters": iters, "runner_completion": False, "src_infinite": True}


def run_totals(ctx, case):
    """requests handed out by the real ScheduleHandle (from schedule_for) for an inexhaustible parameter source: exact count,
    warm-up flags, progress — for totals up to several thousand"""
    import asyncio

    from esrally import metrics, track
    from esrally.driver import driver, runner

    total = (case["warmup_it"] or 0) + case["iters"]
    fuel = total + 3
    m = ctx.model("exec", "loop_count", dict(case, mode="dbl", fuel=fuel))

    class Src:
        infinite = True

        def partition(self, i, n):
            return self

        def params(self):
            return {}

    class R:
        async def __call__(self, es, params):
            return None

    runner.register_runner(ec.OP_TYPE, R(), async_runner=True)
    try:
        task = track.Task("t", track.Operation("o", ec.OP_TYPE, params={}), warmup_iterations=case["warmup_it"], iterations=case["iters"])
        handle = driver.schedule_for(driver.TaskAllocation(task, 0, 0, 1), Src())
        handle.start()
        got = []

        async def consume():
            async for tup in handle():
                got.append((tup[1] == metrics.SampleType.Warmup, tup[2]))
                if len(got) >= fuel:
                    break

        loop = asyncio.new_event_loop()
        try:
            loop.run_until_complete(consume())
        finally:
            loop.close()
    finally:
        runner.remove_runner(ec.OP_TYPE)
    impl = {"count": len(got), "warmup": sum(1 for w, _ in got if w), "last": None if not got else str(Fraction(got[-1][1])),
            "max": None if not got else str(max(Fraction(p) for _, p in got))}
    mm = {"count": m["r"]["count"], "warmup": m["r"]["warmup"], "last": None if m["r"]["last"] is None else str(Fraction(m["r"]["last"])),
          "max": None if m["r"]["max"] is None else str(Fraction(m["r"]["max"]))}
    if mm != impl:
        ctx.diff("schedule of an iteration-based task", mm, impl)
    warm = case["warmup_it"] or 0
    if impl["count"] != total:
        ctx.fail("iteration-count", f"warmup-iterations={warm}, iterations={case['iters']}: the client is handed {impl['count']} requests", total, impl["count"])
    if impl["warmup"] != warm or any(w != (i < warm) for i, (w, _) in enumerate(got)):
        ctx.fail("warmup-flag", "not exactly the first warmup-iterations requests are flagged warm-up", warm, impl["warmup"])
    if got and (Fraction(got[-1][1]) != 1 or any(Fraction(p) > 1 or Fraction(p) <= 0 for _, p in got)):
        ctx.fail("progress", "progress leaves (0,1] or does not end at 1", "1", impl["last"] + " max " + impl["max"])
    ctx.sig([total.bit_length(), warm == 0, warm == total - 1], nontrivial=total >= 49)
    ctx.count("total>=49" if total >= 49 else "total<49")


def gen_totals_executor(ctx):
    """the same through the whole executor (every request a sample): totals up to a few hundred, instantaneous requests"""
    import math

    rng = ctx.rng
    for _ in range(ctx.budget):
        total = int(round(math.exp(rng.uniform(math.log(40), math.log(700)))))
        warm = rng.choice([0, 0, rng.randrange(0, total)])
        case = ec.gen_case(rng, True, "loop")
        case["task"].update(warmup_it=warm if (warm or rng.random() < 0.5) else None, iters=total - warm, warmup_t=None, period=None, ramp_up=None, tput=None, sched=None)
        q = {"gen": "0/1", "pre": "0/1", "service": "0/1", "post": "0/1", "draw": "0/1", "out": {"k": "tuple", "w": 1, "unit": "ops"}, "rc": None, "rp": None, "sp": None}
        case["reqs"] = [dict(q, service=rng.choice(["0/1", "1/1024"])) for _ in range(total + 2)]
        case.update(cancel_at=None, complete_at=None, runner_completion=False, src_infinite=True, src_progress=False, queue_cap=16384, on_error="continue")
        yield case


def oracle_due(ctx, case, impl):
    """pacing with the expectation taken from the PLAN (what the runner reports for each request: a returned answer carries its
    weight also when it says success=False, a raised error carries none), not from the weight the executor stored in the sample:
    request k+1 is due weight(k)*C/T after request k, everything is due at 0 until a positive weight has been reported"""
    if impl["result"] in ec.NO_RUN or impl["result"].startswith("raised:"):
        return
    tuples = impl["tuples"]
    due = ec.expected_due_times(case, len(tuples)) if len(tuples) <= len(case["reqs"]) else None
    if due is None:
        return
    exact = bool(case.get("exact"))
    ctx.count("oracle:due-times-from-plan")
    for i, tup in enumerate(tuples):
        got = Fraction(tup["sched"])
        ok_ = got == due[i] if exact else abs(got - due[i]) <= Fraction(1, 2**46) * max(due[i], got, Fraction(1, 2**20))
        if not ok_:
            ws = [ec.reported_weight(q["out"])[0] for q in case["reqs"][:i]]
            failed = any(q["out"]["k"] == "dict" and q["out"].get("success") is False for q in case["reqs"][:i])
            ctx.fail("det-spacing-reported" + ("-failed-response" if failed else ""),
                     f"request {i} is not scheduled weight*clients/throughput after its predecessor (weights reported by the runner: {ws})", str(due[i]), str(got))
            break


def run(ctx, case):
    ec.run_exec(ctx, case, [ec.oracle_c05, oracle_due])


# ------------------------------------------------------------------------------------------------
# one worker, several clients: the real AsyncIoAdapter.run (schedule_for + executor per client, one sampler, one loop)
# ------------------------------------------------------------------------------------------------
WORKER_OP = "c05-worker-op"
WORKER_SRC = "c05-worker-source"


def _w_outcome(rng, unit, weights, err_p, bare):
    r = rng.random()
    w = rng.choice(weights)
    if r < err_p:
        k = rng.choice(["dict-fail", "dict-fail", "dict-fail", "api", "transport", "timeout"])
        if k == "dict-fail":
            return {"k": "dict", "w": w, "unit": unit, "success": False, "tput": None, "etype": rng.choice([None, "bulk"])}
        if k == "api":
            return {"k": "api", "status": rng.choice([400, 404, 429, 503])}
        if k == "transport":
            return {"k": "transport", "status": None}
        return {"k": "timeout"}
    if r < err_p + 0.5 * (1 - err_p):
        return {"k": "tuple", "w": w, "unit": unit}
    if bare and rng.random() < 0.3:
        return {"k": "none"}
    return {"k": "dict", "w": w, "unit": unit, "success": rng.choice([None, True]), "tput": None, "etype": None}


def gen_worker(ctx):
    """one schedule element (a task, or a parallel structure of up to three tasks) with 1..4 clients per task; the worker simulates
    all of its clients or a subset (as the round-robin assignment over k cores yields); per client its own plan of service times
    and answers (successful, `success: False` with a weight — also as the very first answers —, raised errors)"""
    rng = ctx.rng
    for _ in range(ctx.budget):
        ntasks = rng.choice([1, 1, 1, 2, 2, 3])
        tasks, plans = [], []
        for j in range(ntasks):
            C = rng.choice([1, 2, 2, 3, 3, 4])
            unit = rng.choice(["ops", "ops", "docs"])
            w0 = 1 if unit == "ops" else rng.choice([1, 2, 8, 500])
            weights = [w0]
            tput, interval = None, None
            if rng.random() < 0.65:
                k = rng.choice([-2, -1, -1, 0, 0, 1])
                interval = Fraction(2) ** k
                tunit = unit if rng.random() < 0.7 else "ops"
                weff = w0 if tunit == unit else 1
                T = Fraction(C * weff) / interval
                how = rng.choice(["str", "str", "num"]) if tunit == "ops" else "str"
                if how == "str":
                    tput = {"tt": {"kind": "str", "s": (str(int(T)) if T.denominator == 1 else str(float(T))) + f" {tunit}/s"}}
                else:
                    tput = {"tt": {"kind": "int", "v": str(int(T))} if T.denominator == 1 else {"kind": "float", "q": ec.qs(T)}}
                if tunit == unit and rng.random() < 0.4:
                    weights = [w0, w0, w0 * 2]
            sched = rng.choice([None, None, "deterministic"])
            spec = {"warmup_it": None, "iters": None, "warmup_t": None, "period": None, "ramp_up": None, "clients": C, "tput": tput, "sched": sched,
                    "completes_parent": False, "any_completes_parent": False}
            if rng.random() < 0.6:
                warm = rng.choice([None, 0, 1, 2, 3])
                spec["warmup_it"], spec["iters"] = warm, rng.choice([1, 2, 3, 4, 5, 8])
                n_plan = (warm or 0) + spec["iters"] + 2
                services = [Fraction(1, 8), Fraction(1, 4), Fraction(1, 2), Fraction(3, 8), Fraction(1, 16)]
            else:
                wt, pt = rng.choice([(0, 1), (0, 2), (1, 1), (1, 2), (2, 2), (1, 3)])
                spec["warmup_t"] = {"int": wt} if (wt or rng.random() < 0.5) else None
                spec["period"] = {"int": pt}
                if rng.random() < 0.4:
                    spec["ramp_up"] = {"int": rng.choice([1, 2, 4])}
                n_plan = (wt + pt) * 8 + 3
                services = [Fraction(1, 8), Fraction(1, 4), Fraction(1, 2), Fraction(3, 8)]
            tasks.append(spec)
            per_client = []
            for _c in range(C):
                err_p = rng.choice([0, 0, 0.2, 0.5])
                reqs = []
                for i in range(n_plan):
                    reqs.append({"gen": "0/1", "pre": ec.qs(rng.choice([0, 0, Fraction(1, 64), Fraction(1, 32)])), "service": ec.qs(rng.choice(services)),
                                 "post": ec.qs(rng.choice([0, 0, Fraction(1, 64)])), "draw": "0/1", "out": _w_outcome(rng, unit, weights, err_p, unit == "ops" and weights == [1]),
                                 "rc": None, "rp": None, "sp": None})
                if rng.random() < 0.3:
                    # the first answers of the client say `success: False` (bulk with item errors, polling an API that says "not yet")
                    for i in range(min(len(reqs), rng.choice([1, 2, 3]))):
                        reqs[i]["out"] = {"k": "dict", "w": rng.choice(weights), "unit": unit, "success": False, "tput": None, "etype": None}
                per_client.append(reqs)
            plans.append(per_client)
        width = sum(t["clients"] for t in tasks)
        if width not in (1, 2, 4, 8):
            # all instants of a case stay dyadic: the virtual loop runs timers that are closer than its clock resolution in one go, so
            # two clients whose wake-up times differ by one ulp (ramp-up * i / 6 …) would see each other's clock
            for t in tasks:
                t["ramp_up"] = None
        r = rng.random()
        if r < 0.55 or width == 1:
            members = list(range(width))
        elif r < 0.85:
            cores = rng.choice([2, 3])
            wk = rng.randrange(0, cores)
            members = [c for c in range(width) if c % cores == wk] or [0]
        else:
            members = sorted(rng.sample(range(width), rng.randrange(1, width + 1)))
        yield {"tasks": tasks, "plans": plans, "members": members, "parallel": ntasks > 1 or rng.random() < 0.2,
               "t0": ec.qs(Fraction(rng.randrange(0, 4096), 8)), "epoch": ec.qs(Fraction(1_600_000_000 + rng.randrange(0, 1000)))}


def worker_client_cases(case):
    """per client of the element (in the order of its sub-tasks): that client's own case in the format of the one-client model"""
    out = []
    width = sum(t["clients"] for t in case["tasks"])
    off = 0
    for j, spec in enumerate(case["tasks"]):
        for k in range(spec["clients"]):
            out.append({"task": spec, "client": {"id": off + k, "idx": k, "gidx": off + k, "total": width}, "t0": case["t0"], "epoch": case["epoch"],
                        "on_error": "continue", "runner_completion": False, "src_infinite": True, "src_progress": False, "cancel_at": None,
                        "complete_at": None, "queue_cap": 16384, "reqs": case["plans"][j][k], "_task": j})
        off += spec["clients"]
    return out


def run_worker_impl(case):
    import asyncio
    import threading

    from esrally import config, metrics, track
    from esrally.client import context
    from esrally.driver import driver, runner
    from esrally.track import params as tparams
    from harness import sim_vloop

    clock = sim_vloop.VClock(ec.q2f(case["t0"]), ec.q2f(case["epoch"]))
    ccs = worker_client_cases(case)
    plan = {(c["_task"], c["client"]["idx"]): c["reqs"] for c in ccs}
    conn_log, closed, partitions = {}, [], []

    class SimClient(context.RequestContextHolder):
        def __init__(self, client_id):
            self.client_id = client_id

        async def request(self, service, tag):
            self.on_request_start()
            s = clock.now
            if service > 0:
                await asyncio.sleep(service)
            self.on_request_end()
            conn_log.setdefault(self.client_id, []).append((s, clock.now, tag))

        async def close(self):
            closed.append(self.client_id)

    class Factory:
        def __init__(self, hosts, client_options, distribution_version=None, distribution_flavor=None):
            pass

        def create_async(self, api_key=None, client_id=None):
            return SimClient(client_id)

    class Runner:
        async def __call__(self, es, params):
            q = plan[(params["j"], params["k"])][params["i"]]
            pre, post = ec.q2f(q["pre"]), ec.q2f(q["post"])
            if pre > 0:
                await asyncio.sleep(pre)
            await es.request(ec.q2f(q["service"]), [params["j"], params["k"], params["i"]])
            if post > 0:
                await asyncio.sleep(post)
            v = ec._return_value(q["out"])
            if isinstance(v, BaseException):
                raise v
            return v

        def __repr__(self):
            return "c05-worker-runner"

    class Partition:
        infinite = True

        def __init__(self, j, k):
            self.j, self.k, self.i = j, k, 0

        def params(self):
            if self.i >= len(plan[(self.j, self.k)]):
                raise StopIteration()
            self.i += 1
            return {"j": self.j, "k": self.k, "i": self.i - 1}

    class Source:
        infinite = True

        def __init__(self, trk, params, **kwargs):
            self.j = params["j"]

        def partition(self, partition_index, total_partitions):
            partitions.append([self.j, partition_index, total_partitions])
            return Partition(self.j, partition_index)

        def params(self):
            raise AssertionError("the unpartitioned source is never asked for parameters")

    class Hosts:
        all_hosts = {"default": [{"host": "127.0.0.1", "port": 9200}]}

    class Ctx:
        api_key = None

    leaves = []
    for j, spec in enumerate(case["tasks"]):
        leaves.append(track.Task(f"task-{j}", track.Operation(f"op-{j}", WORKER_OP, params={"j": j}, param_source=WORKER_SRC),
                                 warmup_iterations=spec["warmup_it"], iterations=spec["iters"], warmup_time_period=ec.num(spec["warmup_t"]),
                                 time_period=ec.num(spec["period"]), ramp_up_time_period=ec.num(spec["ramp_up"]), clients=spec["clients"],
                                 schedule=spec["sched"], params=ec.tput_params(spec.get("tput"))))
    element = track.Parallel(leaves) if (case["parallel"] or len(leaves) > 1) else leaves[0]
    rows = driver.Allocator([element]).allocations
    allocs = []
    for cid, row in enumerate(rows):
        ent = [e for e in row if isinstance(e, driver.TaskAllocation)]
        if cid in case["members"] and ent:
            allocs.append(driver.ClientAllocation(cid, ent[0]))
    cfg = config.Config()
    for sec, key, val in (("driver", "profiling", False), ("driver", "assertions", False), ("client", "hosts", Hosts()), ("client", "options", {"default": {}})):
        cfg.add(config.Scope.application, sec, key, val)
    sampler = driver.Sampler(start_timestamp=clock.now)
    out = {"result": "ok", "clients": {}, "partitions": partitions}
    saved_factory = driver.client.EsClientFactory
    driver.client.EsClientFactory = Factory
    runner.register_runner(WORKER_OP, Runner(), async_runner=True)
    tparams.register_param_source_for_name(WORKER_SRC, Source)
    try:
        adapter = driver.AsyncIoAdapter(cfg, track.Track(name="c05-worker-track"), allocs, sampler, threading.Event(), threading.Event(), "continue",
                                        {a.client_id: Ctx() for a in allocs}, 0)
        _, exc = sim_vloop.run_virtual(clock, adapter.run)
        if exc is not None:
            out["result"] = "raised:" + type(exc).__name__
            out["message"] = str(exc)
    finally:
        driver.client.EsClientFactory = saved_factory
        runner.remove_runner(WORKER_OP)
        tparams._unregister_param_source_for_name(WORKER_SRC)
    per = {}
    for s in sampler.samples:
        md = s.request_meta_data or {}
        per.setdefault(s.client_id, []).append({
            "warmup": s.sample_type == metrics.SampleType.Warmup, "client": s.client_id, "abs": s.absolute_time, "start": s.request_start,
            "latency": s.latency, "service": s.service_time, "processing": s.processing_time, "tput": s.throughput, "ops": s.total_ops,
            "unit": s.total_ops_unit, "period": s.time_period, "progress": s.percent_completed, "success": md.get("success"),
            "etype": md.get("error-type"), "status": md.get("http-status"), "task": getattr(s.task, "name", None)})
    out["samples"] = per
    out["conn"] = conn_log
    out["allocs"] = [[a.client_id, a.task.task.name, a.task.client_index_in_task, a.task.global_client_index, a.task.total_clients] for a in allocs]
    out["closed"] = sorted(closed)
    return out


def run_worker(ctx, case):
    impl = run_worker_impl(case)
    ccs = worker_client_cases(case)
    mine = [c for c in ccs if c["client"]["id"] in case["members"]]
    wire_cases = [{k: v for k, v in c.items() if k != "_task"} for c in mine]
    ms = {}
    for mode in ("dbl", "exact"):
        ms[mode] = ctx.model("worker", "run", {"clients": wire_cases, "queue_cap": 16384, "mode": mode})
    if "r" not in ms["dbl"]:
        ctx.diff("worker run", ms["dbl"], impl["result"])
        return
    exact_all = ms["dbl"].get("r") == ms["exact"].get("r")
    if impl["result"] != "ok":
        ctx.diff("AsyncIoAdapter.run raised", "ok", [impl["result"], impl.get("message")])
    unknown = sorted(set(impl["conn"]) | set(impl["samples"]) - set(case["members"]) - {None})
    unknown = [c for c in unknown if c not in case["members"]]
    if unknown:
        ctx.fail("worker-foreign-client", "requests or samples of clients the worker does not simulate", case["members"], unknown)
    width = sum(t["clients"] for t in case["tasks"])
    nontrivial = False
    for c, mr in zip(mine, ms["dbl"]["r"]):
        cid = c["client"]["id"]
        spec = c["task"]
        reqs = c["reqs"]
        samples = impl["samples"].get(cid, [])
        conn = impl["conn"].get(cid, [])
        who = f"client {cid} (task {c['_task']}, client {c['client']['idx']} of {spec['clients']}; worker simulates {case['members']})"
        # --- correspondence with the one-client model: samples, endpoint log
        try:
            ci = {"samples": [ec.canon_sample(s) for s in samples], "wire": [[[str(Fraction(a)), str(Fraction(b))]] for a, b, _ in conn]}
            cm = {"samples": [ec.canon_sample(s) for s in mr["samples"]],
                  "wire": [sorted([str(ec.frac(a)), str(ec.frac(b))] for a, b in g) for g in mr["wire"]]}
        except Exception as e:  # noqa: BLE001 whatever the implementation produced that cannot be read is a difference
            ctx.diff("unreadable output for " + who, None, repr(e))
            continue
        if mr["client"] != cid or ci != cm:
            keys = [k for k in ci if ci[k] != cm[k]]
            ctx.diff("worker client:" + ",".join(keys), {k: cm[k] for k in keys}, {k: ci[k] for k in keys})
        # --- direct oracles, expectation from the case only
        t0 = Fraction(case["t0"])
        mine_tag = [c["_task"], c["client"]["idx"]]
        if any(tag[:2] != mine_tag for _, _, tag in conn) or [tag[2] for _, _, tag in conn] != list(range(len(conn))):
            ctx.fail("worker-client-mixup", f"{who}: the requests sent through its connection are not its own parameter sets in order",
                     [mine_tag + [i] for i in range(len(conn))][:8], [tag for _, _, tag in conn][:8])
        if any(s.get("task") != f"task-{c['_task']}" for s in samples):
            ctx.fail("worker-client-mixup", f"{who}: samples carrying its client id belong to another task", f"task-{c['_task']}", sorted({s.get('task') for s in samples}))
        flags = [s["warmup"] for s in samples]
        prog = [s["progress"] for s in samples]
        if spec["iters"] is not None:
            warm = spec["warmup_it"] or 0
            total = warm + spec["iters"]
            if len(conn) != total:
                ctx.fail("worker-iteration-count", f"{who}: executes {len(conn)} requests, warmup-iterations + iterations = {warm}+{spec['iters']}", total, len(conn))
            if len(samples) != total:
                ctx.fail("worker-iteration-count", f"{who}: {len(samples)} samples, warmup-iterations + iterations = {warm}+{spec['iters']}", total, len(samples))
            if flags != [i < warm for i in range(len(samples))]:
                ctx.fail("worker-warmup-flag", f"{who}: not exactly the first {warm} requests are flagged warm-up", [i < warm for i in range(len(samples))], flags)
            if prog != [float(Fraction(i + 1, total)) for i in range(len(samples))] and [None if p is None else Fraction(p) for p in prog] != [
                    Fraction(float(Fraction(i + 1, total))) for i in range(len(samples))]:
                ctx.fail("worker-progress", f"{who}: progress is not (k+1)/total ending at 1", [str(Fraction(i + 1, total)) for i in range(total)], prog)
            ctx.count("oracle:worker-iteration-based")
        else:
            warm = Fraction(ec.num(spec["warmup_t"]) or 0)
            dur = warm + Fraction(ec.num(spec["period"]))
            deadline = t0 + dur
            ends = [Fraction(b) + Fraction(reqs[i]["post"]) for i, (_, b, _) in enumerate(conn[: len(reqs)])]
            for i in range(1, len(conn)):
                if i - 1 < len(ends) and not ends[i - 1] < deadline:
                    ctx.fail("worker-time-stop", f"{who}: request {i} issued although warmup-time-period + time-period had elapsed after request {i - 1}", str(deadline), str(ends[i - 1]))
                    break
            if len(conn) < len(reqs) and (not ends or ends[-1] < deadline):
                ctx.fail("worker-time-stop", f"{who}: stops after {len(conn)} requests before warmup-time-period + time-period has elapsed", str(deadline), str(ends[-1]) if ends else None)
            if len(samples) != len(conn):
                ctx.fail("worker-sample-count", f"{who}: {len(conn)} requests but {len(samples)} samples", len(conn), len(samples))
            for i, s in enumerate(samples[: len(conn)]):
                lo = t0 if i == 0 else ends[i - 1]
                hi = Fraction(conn[i][0])
                if hi - t0 < warm and not s["warmup"]:
                    ctx.fail("worker-warmup-flag", f"{who}: request {i} issued at elapsed {hi - t0} < warmup-time-period {warm} is not warm-up", True, False)
                if lo - t0 >= warm and s["warmup"]:
                    ctx.fail("worker-warmup-flag", f"{who}: request {i} follows a response at elapsed {lo - t0} >= warmup-time-period {warm} but is warm-up", False, True)
            ctx.count("oracle:worker-time-based")
        seen_normal = False
        for i, f in enumerate(flags):
            if seen_normal and f:
                ctx.fail("worker-sample-type-order", f"{who}: sample {i} is warm-up after a normal one", False, True)
                break
            seen_normal = seen_normal or not f
        if any(p is None or not 0 <= p <= 1 for p in prog) or any(b < a for a, b in zip(prog, prog[1:]) if a is not None and b is not None):
            ctx.fail("worker-progress", f"{who}: progress decreases or leaves [0,1]", None, prog)
        # pacing and ramp-up from the plan: request k goes out at max(due(k), end of request k-1) + its client-side gap
        ramp = Fraction(ec.num(spec["ramp_up"]) or 0)
        start = t0 + ramp * c["client"]["gidx"] / width
        n = min(len(conn), len(reqs))
        due = ec.expected_due_times(c, n) if n else None
        if due is None and ec._tput_reading_raw(c) is None:
            due = [Fraction(0)] * n
        if due is not None:
            prev_end = start
            for i in range(n):
                want = max(t0 + due[i], prev_end) + Fraction(reqs[i]["pre"])
                got = Fraction(conn[i][0])
                if not (got == want if exact_all else abs(got - want) <= Fraction(1, 10**9) * max(1, want)):
                    failed = any(q["out"]["k"] == "dict" and q["out"].get("success") is False for q in reqs[:i])
                    ctx.fail("worker-pacing" + ("-failed-response" if failed and due[i] > 0 else ""),
                             f"{who}: request {i} is not issued at max(task start + due time {due[i]} [weights reported: "
                             f"{[ec.reported_weight(q['out'])[0] for q in reqs[:i]]}], end of request {i - 1}) + client-side gap", str(want), str(got))
                    break
                prev_end = Fraction(conn[i][1]) + Fraction(reqs[i]["post"])
                if samples[i:i + 1] and due[i] > 0:
                    lat = Fraction(conn[i][1]) - (t0 + due[i])
                    if not (Fraction(samples[i]["latency"]) == lat if exact_all else abs(Fraction(samples[i]["latency"]) - lat) <= Fraction(1, 10**9) * max(1, lat)):
                        ctx.fail("worker-latency", f"{who}: latency of request {i} is not response time - due time", str(lat), str(samples[i]["latency"]))
                        break
            ctx.count("oracle:worker-pacing")
        nontrivial = nontrivial or len(samples) >= 2
    if sorted(impl["closed"]) != sorted(case["members"]):
        ctx.diff("connections closed after the step", sorted(case["members"]), impl["closed"])
    ctx.count(f"worker-clients:{min(len(mine), 4)}{'+' if len(mine) > 4 else ''}")
    ctx.sig([sorted(ms["dbl"].get("tags", [])), sorted({r_["result"] for r_ in ms["dbl"]["r"]}), exact_all, len(case["tasks"]),
             sorted({("iter" if c["task"]["iters"] is not None else "time", c["task"]["tput"] is not None, c["task"]["ramp_up"] is not None) for c in mine})],
            nontrivial=nontrivial and len(mine) >= 2)


# ------------------------------------------------------------------------------------------------
# ramp-up of every client of whole schedules, allocations from the real Allocator
# ------------------------------------------------------------------------------------------------
def gen_alloc_ramp(ctx):
    rng = ctx.rng
    for _ in range(ctx.budget):
        sched = gen_schedule_spec(rng, max_elems=5)
        ramps = {}
        for e in sched:
            for sub in e["tasks"]:
                r = rng.random()
                ramps[sub["id"]] = None if r < 0.2 else ({"int": rng.choice([1, 2, 5, 8, 10, 30, 60])} if r < 0.85 else {"float": ec.qs(Fraction(rng.choice([0.5, 2.5, rng.uniform(0, 50)])))})
        yield {"schedule": sched, "ramps": [{"id": k, "ramp": v} for k, v in sorted(ramps.items())]}


def run_alloc_ramp(ctx, case):
    from esrally import track
    from esrally.driver import driver

    ramps = {r["id"]: r["ramp"] for r in case["ramps"]}
    tasks = {}
    whole = []
    for e in case["schedule"]:
        leaves = []
        for sub in e["tasks"]:
            tk = track.Task(f"t{sub['id']}", track.Operation(f"o{sub['id']}", "bulk", params={}), clients=sub["clients"], completes_parent=sub["cp"],
                            any_completes_parent=sub["acp"], warmup_time_period=120, time_period=10, ramp_up_time_period=ec.num(ramps[sub["id"]]))
            tasks[id(tk)] = sub
            leaves.append(tk)
        whole.append(leaves[0] if e.get("leaf") else track.Parallel(leaves, clients=e["clients"]))
    rows = driver.Allocator(whole).allocations
    impl = []
    for ri, row in enumerate(rows):
        for pi, ent in enumerate(row):
            if isinstance(ent, driver.TaskAllocation):
                sub = tasks[id(ent.task)]
                w = driver.ScheduleHandle(ent, None, None, None, None).ramp_up_wait_time
                impl.append([ri, pi, sub["id"], ent.client_index_in_task, ent.global_client_index, ent.total_clients, str(Fraction(w))])
    m = ctx.model("exec", "alloc_ramp", {"schedule": case["schedule"], "ramps": case["ramps"], "mode": "dbl"})
    mm = [x[:6] + [str(Fraction(x[6]))] for x in m["r"]]
    if mm != impl:
        ctx.diff("allocations+ramp_up_wait_time", [x for x in mm if x not in impl][:6], [x for x in impl if x not in mm][:6])
    # direct oracle: client i of an element (task or parallel structure) with `total` clients waits ramp-up * i / total,
    # i counted over the element's sub-tasks in order, total = the element's OWN client count
    by_sub = {}
    for x in impl:
        by_sub.setdefault(x[2], {})[x[3]] = x
    nontrivial = False
    for e in case["schedule"]:
        width = sum(x["clients"] for x in e["tasks"])
        total = e["clients"] if e.get("clients") is not None else width
        if total < width:
            ctx.count("oracle:overcommitted-element-skipped")
            continue
        off = 0
        for sub in e["tasks"]:
            ramp = ramps[sub["id"]]
            rv = Fraction(0) if ramp is None else (Fraction(ramp["int"]) if "int" in ramp else Fraction(ramp["float"]))
            for k in range(sub["clients"]):
                x = by_sub.get(sub["id"], {}).get(k)
                if x is None:
                    ctx.fail("allocation-missing", f"client {k} of task {sub['id']} has no allocation", None, None)
                    continue
                want = rv * (off + k) / total
                if abs(Fraction(x[6]) - want) > Fraction(1, 2**50) * want:
                    ctx.fail("ramp-up", f"client {off + k} of {total} of the element (task {sub['id']}, client {k}) does not wait ramp-up*i/total", str(want), x[6])
                if want > 0:
                    nontrivial = True
            off += sub["clients"]
    ctx.sig([m.get("tags"), len(case["schedule"])], nontrivial=nontrivial)


# ------------------------------------------------------------------------------------------------
# Task.target_throughput
# ------------------------------------------------------------------------------------------------
VALUES_OK = ["5", "007", "0", "10", "1.5", ".5", "0.001", "12345678901234567890", "3.14159", "00.50", "0.0", "1000000", "0.1", "99.999", "2", "64", "0.25"]
VALUES_BAD = ["", "1.", ".", "1.2.3", "-5", "+5", "1e3", "1,5", "x", "1..5", " 5", "5 ", "٥"]
SEPS_OK = [" ", " ", " ", "\t", "\n", "\r", "\x0b", "\x0c", "\x1c", "\x1f"]
SEPS_BAD = ["", "  ", "-", "_", "/"]
UNITS_OK = ["ops/s", "docs/s", "MB/s", "pages/s", "_x1/s", "a/s", "GB_2/s", "ops/sec", "ops/s/s", "ops/s trailing", "9/s"]
UNITS_BAD = ["ops", "ops/", "/s", "ops /s", "op-s/s", "ops/S", "", "ops\\s", "é/s", "o ps/s"]


def gen_parse(ctx):
    rng = ctx.rng
    for _ in range(ctx.budget):
        r = rng.random()
        case = {"tt": None, "ti": None, "expect": None}
        if r < 0.55:
            okv, oks, oku = rng.random() < 0.85, rng.random() < 0.9, rng.random() < 0.85
            v = rng.choice(VALUES_OK if okv else VALUES_BAD)
            if okv and rng.random() < 0.3:
                v = str(rng.randrange(0, 10**rng.randrange(1, 12))) + (("." + "".join(rng.choice("0123456789") for _ in range(rng.randrange(1, 8)))) if rng.random() < 0.5 else "")
            sp = rng.choice(SEPS_OK if oks else SEPS_BAD)
            u = rng.choice(UNITS_OK if oku else UNITS_BAD)
            s = v + sp + u
            if any(ord(ch) > 127 for ch in s):
                s = "".join(ch for ch in s if ord(ch) < 128)
                okv = oks = oku = False
            case["tt"] = {"kind": "str", "s": s}
            if okv and oks and oku and s:
                m = re.match(r"^(\w+/s)", u)
                case["expect"] = {"value": v, "unit": m.group(1)}
            elif not s:
                case["expect"] = "none"
        elif r < 0.75:
            k = rng.choice(["int", "int", "float", "bool", "list"])
            key = rng.choice(["tt", "tt", "ti"])
            if k == "int":
                case[key] = {"kind": "int", "v": str(rng.choice([0, 1, 2, 5, 10, 1000, -3, 10**20, 3, 7, 64]))}
            elif k == "float":
                case[key] = {"kind": "float", "q": ec.qs(Fraction(rng.choice([0.0, 0.5, 1.5, -2.5, 1e-3, 0.1, 123.456, 1 / 3, rng.uniform(0, 1000)])))}
            elif k == "bool":
                case[key] = {"kind": "bool", "b": rng.random() < 0.5}
            else:
                case[key] = {"kind": "list", "n": rng.choice([0, 2])}
        elif r < 0.85:
            case["ti"] = rng.choice([{"kind": "str", "s": "5"}, {"kind": "str", "s": ""}, {"kind": "int", "v": "4"}, {"kind": "float", "q": "1/4"}])
            if rng.random() < 0.5:
                case["tt"] = rng.choice([{"kind": "int", "v": "0"}, {"kind": "int", "v": "5"}, {"kind": "str", "s": "5 ops/s"}, {"kind": "str", "s": ""}, {"kind": "bool", "b": False}])
        else:
            # random ASCII soup around the grammar
            alphabet = "0123456789.. \t/s_opdcMB-+e"
            case["tt"] = {"kind": "str", "s": "".join(rng.choice(alphabet) for _ in range(rng.randrange(0, 12)))}
        yield case


def documented_syntax(s):
    """independent recogniser of the documented syntax `<number><one white-space char><word>/s...` (no `re`):
    returns (Fraction value, unit) or None"""
    digits = "0123456789"
    i = 0
    while i < len(s) and s[i] in digits:
        i += 1
    int_part = s[:i]
    frac_part = None
    if i < len(s) and s[i] == ".":
        j = i + 1
        while j < len(s) and s[j] in digits:
            j += 1
        frac_part = s[i + 1:j]
        if not frac_part:
            return None
        i = j
    elif not int_part:
        return None
    if i >= len(s) or s[i] not in " \t\n\r\x0b\x0c\x1c\x1d\x1e\x1f":
        return None
    i += 1
    word = "abcdefghijklmnopqrstuvwxyzABCDEFGHIJKLMNOPQRSTUVWXYZ0123456789_"
    k = i
    while k < len(s) and s[k] in word:
        k += 1
    if k == i or s[k:k + 2] != "/s":
        return None
    value = Fraction(int(int_part or "0")) + (Fraction(int(frac_part), 10 ** len(frac_part)) if frac_part else 0)
    return value, s[i:k] + "/s"


def _impl_tput(case):
    from esrally import exceptions, track

    task = track.Task("t", track.Operation("o", "bulk", params={}), params=ec.tput_params({"tt": case["tt"], "ti": case["ti"]}))
    try:
        tp = task.target_throughput
    except exceptions.InvalidSyntax:
        return {"err": "InvalidSyntax"}
    if tp is None:
        return {"r": None}
    return {"r": [ec.f2q(tp.value), tp.unit]}


def run_parse(ctx, case):
    m = ctx.model("exec", "tput", {"tt": case["tt"], "ti": case["ti"], "mode": "dbl"})
    i = _impl_tput(case)
    mm = {"r": None if m["r"] is None else [str(Fraction(m["r"][0])), m["r"][1]]} if "r" in m else {"err": m["err"]}
    ii = {"r": None if i["r"] is None else [str(Fraction(i["r"][0])), i["r"][1]]} if "r" in i else i
    if mm != ii:
        ctx.diff("target_throughput", mm, ii)
    # direct oracle: the documented syntax "<number> <unit>/s" | number | target-interval
    tt, ti = case["tt"], case["ti"]
    exp = case.get("expect")
    if tt is not None and ti is not None:
        if "err" not in i:
            ctx.fail("parse-both", "target-throughput and target-interval together must be rejected", "InvalidSyntax", i)
    elif ti is None and tt is not None and tt["kind"] == "str":
        if tt["s"] == "":
            want = {"r": None}
        else:
            d = documented_syntax(tt["s"])
            want = {"err": "InvalidSyntax"} if d is None else ({"r": None} if d[0] == 0 else {"r": [str(Fraction(float(d[0]))), d[1]]})
        if exp not in (None, "none") and want != ({"r": None} if Fraction(exp["value"]) == 0 else {"r": [str(Fraction(float(Fraction(exp["value"])))), exp["unit"]]}):
            raise ec.HarnessError(f"generator and recogniser disagree on {tt['s']!r}")
        if ii != want:
            ctx.fail("parse-string", "throughput string not handled as the documented syntax says", want, ii)
    elif ti is None and tt is not None and tt["kind"] in ("int", "float"):
        v = Fraction(tt["v"]) if tt["kind"] == "int" else Fraction(tt["q"])
        want = {"r": None} if v == 0 else {"r": [str(Fraction(float(v))), "ops/s"]}
        if ii != want:
            ctx.fail("parse-number", "numeric target throughput", want, ii)
    elif tt is None and ti is not None and ti["kind"] in ("int", "float"):
        v = Fraction(ti["v"]) if ti["kind"] == "int" else Fraction(ti["q"])
        want = {"r": None} if v == 0 else {"r": [str(Fraction(1 / float(v))), "ops/s"]}
        if ii != want:
            ctx.fail("parse-interval", "target interval is not 1/interval ops/s", want, ii)
    elif tt is not None and tt["kind"] == "bool" and tt["b"] and "err" not in i:
        ctx.fail("parse-bool", "boolean target throughput must be rejected", "InvalidSyntax", i)
    ctx.sig([m.get("tags"), "err" if "err" in i else ("none" if i["r"] is None else "some"), exp is not None and exp != "none"], nontrivial="r" in i and i["r"] is not None)
    ctx.count("parse:" + ("err" if "err" in i else ("none" if i["r"] is None else "some")))


# ------------------------------------------------------------------------------------------------
# UnitAwareScheduler pacing in IEEE arithmetic
# ------------------------------------------------------------------------------------------------
def gen_pacing(ctx):
    rng = ctx.rng
    for _ in range(ctx.budget):
        unit = rng.choice(["ops", "docs", "MB"])
        tunit = unit if rng.random() < 0.8 else "ops"
        T = rng.choice([0.1, 0.5, 1, 2, 3, 7, 10, 15.5, 33, 100, 250, 1000, 12345.678, rng.uniform(0.01, 5000), rng.uniform(1, 100)])
        how = rng.choice(["str", "num", "interval"])
        if how == "str":
            s = f"{T:.6f}".rstrip("0").rstrip(".")
            tt, ti = {"kind": "str", "s": f"{s} {tunit}/s"}, None
        elif how == "num":
            tunit = "ops"
            tt, ti = ({"kind": "float", "q": ec.qs(Fraction(float(T)))} if rng.random() < 0.6 or T != int(T) else {"kind": "int", "v": str(int(T))}), None
        else:
            tunit = "ops"
            tt, ti = None, {"kind": "float", "q": ec.qs(Fraction(1 / T))}
        w0 = rng.choice([1, 1, 2, 5, 100, 1000, 5000, 9999])
        fb = []
        n = rng.randrange(0, 12)
        for _k in range(n):
            w = rng.choice([w0, w0, w0, w0, 0, w0 + 1, 1])
            u = unit if rng.random() < 0.97 else rng.choice(["ops", "docs", "MB", "pages"])
            fb.append({"w": w, "unit": u, "draw": ec.qs(Fraction(rng.expovariate(1.0))), "next_draw": ec.qs(Fraction(rng.expovariate(1.0)))})
        yield {"tt": tt, "ti": ti, "sched": rng.choice([None, "deterministic", "deterministic", "poisson"]), "clients": rng.choice([1, 2, 3, 4, 7, 8, 16, 63, 100]),
               "feedback": fb, "tunit": tunit + "/s"}


def run_pacing(ctx, case):
    import random as _random

    from esrally import exceptions, track
    from esrally.driver import scheduler

    a = {k: case[k] for k in ("tt", "ti", "sched", "clients", "feedback")}
    a["mode"] = "dbl"
    m = ctx.model("exec", "pacing", a)
    task = track.Task("t", track.Operation("o", "bulk", params={}), clients=case["clients"], schedule=case["sched"], params=ec.tput_params({"tt": case["tt"], "ti": case["ti"]}))
    draws = []
    rates = []

    class R:
        def expovariate(self, rate):
            rates.append(rate)
            return draws.pop(0)

        def __getattr__(self, n):
            return getattr(_random, n)

    saved = scheduler.random
    scheduler.random = R()
    out = []
    try:
        try:
            s = scheduler.scheduler_for(task)
            draws.append(ec.q2f(case["feedback"][0]["draw"]) if case["feedback"] else 0.0)
            cur = s.next(0)
            out.append(cur)
            for f in case["feedback"]:
                s.before_request(0.0)
                s.after_request(0.0, f["w"], f["unit"], {})
                draws[:] = [ec.q2f(f["next_draw"])]
                cur = s.next(cur)
                out.append(cur)
            i = {"r": {"sched": [str(Fraction(x)) for x in out], "rates": [str(Fraction(x)) for x in rates]}}
        except exceptions.InvalidSyntax:
            i = {"err": "InvalidSyntax"}
        except exceptions.RallyAssertionError:
            i = {"err": "RallyError:unit-mismatch"}
        except exceptions.RallyError:
            i = {"err": "NoScheduler"}
    finally:
        scheduler.random = saved
    mm = {"r": {"sched": [str(Fraction(x)) for x in m["r"]["sched"]], "rates": [str(Fraction(x)) for x in m["r"]["rates"]]}} if "r" in m else {"err": m["err"]}
    if mm != i:
        ctx.diff("pacing", mm, i)
    # direct oracle: deterministic spacing weight*C/T (relative error of three divisions and one addition), monotone schedule
    if "r" in i:
        sched = [Fraction(x) for x in i["r"]["sched"]]
        for k in range(1, len(sched)):
            if sched[k] < sched[k - 1]:
                ctx.fail("scheduled-order", f"scheduled time {k} decreases", str(sched[k - 1]), str(sched[k]))
        rd = ec._tput_reading({"task": {"tput": {"tt": case["tt"], "ti": case["ti"]}}})
        fu = {f["unit"] for f in case["feedback"] if f["w"] > 0}
        consistent = rd is not None and len(fu) <= 1 and (rd[1] == "ops/s" or all(u + "/s" == rd[1] for u in fu))
        if consistent:
            T, tunit = rd
            w_eff = None
            for k, f in enumerate(case["feedback"]):
                if f["w"] > 0:
                    w_eff = f["w"] if f["unit"] + "/s" == tunit else 1
                want = Fraction(0) if w_eff is None else Fraction(w_eff * case["clients"]) / T
                if case["sched"] in (None, "deterministic"):
                    delta = sched[k + 1] - sched[k]
                    if abs(delta - want) > Fraction(1, 2**50) * want + Fraction(1, 2**52) * sched[k + 1]:
                        ctx.fail("det-spacing", f"slots {k},{k + 1} not weight*clients/throughput apart", str(want), str(delta))
                elif w_eff is not None and i["r"]["rates"]:
                    pass
            if case["sched"] == "poisson":
                for rate in i["r"]["rates"]:
                    # every rate handed to expovariate is T/C/w for some fed-back weight (or 1 on unit fallback)
                    ws = {f["w"] for f in case["feedback"] if f["w"] > 0} | {1}
                    if not any(abs(Fraction(rate) - T / case["clients"] / w) <= Fraction(1, 2**50) * T / case["clients"] / w for w in ws):
                        ctx.fail("poisson-rate", "rate passed to expovariate is not throughput/clients/weight", None, rate)
    ctx.sig([m.get("tags"), "err" if "err" in i else len(case["feedback"]) > 1, case["sched"]], nontrivial="r" in i and len(case["feedback"]) >= 2)


# ------------------------------------------------------------------------------------------------
# ramp-up wait
# ------------------------------------------------------------------------------------------------
def gen_ramp(ctx):
    rng = ctx.rng
    for _ in range(ctx.budget):
        total = rng.choice([1, 2, 3, 4, 5, 7, 8, 10, 16, 63, 100, 1000])
        g = rng.randrange(0, total)
        r = rng.random()
        if r < 0.7:
            ramp = {"int": rng.choice([0, 1, 2, 3, 5, 10, 30, 60, 120, 600])}
        elif r < 0.9:
            ramp = {"float": ec.qs(Fraction(rng.choice([0.5, 0.1, 2.5, rng.uniform(0, 100)])))}
        else:
            ramp = None
        yield {"ramp": ramp, "gidx": g, "total": total}


def run_ramp(ctx, case):
    from esrally import track
    from esrally.driver import driver

    m = ctx.model("exec", "ramp", dict(case, mode="dbl"))
    task = track.Task("t", track.Operation("o", "bulk", params={}), ramp_up_time_period=ec.num(case["ramp"]))
    h = driver.ScheduleHandle(driver.TaskAllocation(task, 0, case["gidx"], case["total"]), None, None, None, None)
    w = h.ramp_up_wait_time
    if Fraction(m["r"]) != Fraction(w):
        ctx.diff("ramp_up_wait_time", m["r"], ec.f2q(w))
    ramp = Fraction(0) if case["ramp"] is None else (Fraction(case["ramp"]["int"]) if "int" in case["ramp"] else Fraction(case["ramp"]["float"]))
    want = ramp * case["gidx"] / case["total"]
    if abs(Fraction(w) - want) > Fraction(1, 2**51) * want:
        ctx.fail("ramp-up", "ramp-up wait is not ramp-up*i/total", str(want), ec.f2q(w))
    ctx.sig([case["ramp"] is None, want == 0, Fraction(w) == want], nontrivial=want > 0)


STREAMS = [
    Stream("sched_exact", gen_exact, run, quick=7000, thorough=400000, shards=16),
    Stream("sched_float", gen_float, run, quick=5000, thorough=300000, shards=16),
    Stream("sched_boundary", gen_boundary, run, quick=2500, thorough=100000, shards=8),
    Stream("task_lifecycle_allocator", gen_lifecycle, run, quick=5000, thorough=200000, shards=16),
    Stream("track_file_loop_control", gen_track_cases, run, quick=4000, thorough=150000, shards=16),
    Stream("reader_inheritance", gen_reader, run_reader, quick=6000, thorough=200000, shards=8),
    Stream("iteration_totals_schedule", gen_totals, run_totals, quick=1600, thorough=40000, shards=16),
    Stream("iteration_totals_executor", gen_totals_executor, run, quick=160, thorough=4000, shards=16),
    Stream("worker_clients", gen_worker, run_worker, quick=480, thorough=20000, shards=16),
    Stream("allocator_ramp_up", gen_alloc_ramp, run_alloc_ramp, quick=4000, thorough=150000, shards=8),
    Stream("throughput_parse", gen_parse, run_parse, quick=12000, thorough=600000, shards=8),
    Stream("pacing_ieee", gen_pacing, run_pacing, quick=8000, thorough=400000, shards=8),
    Stream("ramp_up_wait", gen_ramp, run_ramp, quick=2000, thorough=60000, shards=4),
]
