"""C06 — ThroughputCalculator counts every operation exactly once, however samples are batched.

Two families of streams, one oracle:
* calculator streams: one sample stream (1–3 tasks, several clients, out-of-order arrival across clients) cut into
  successive batches that are fed to ONE real `driver.ThroughputCalculator` through successive `calculate()` calls
  and to the Lean model `Throughput.calculate` (variant `current`);
* driver streams: the same kind of samples, with realistic per-client `percent_completed`, shipped worker by worker
  into a real `driver.Driver` buffer (`update_samples`) with `post_process_samples()` runs at arbitrary points, i.e.
  the real `SamplePostprocessor` that owns the calculator for the whole race writing into a real
  `InMemoryMetricsStore`; the throughput records of every run are compared with the Lean model `Throughput.driverRun`.
* executor stream: scripted runner return values (dict / tuple / None; throughput absent, None, 0, 0.0, tiny, huge,
  negative …) go through the real `execute_single` / `AsyncExecutor` / schedule / `Sampler` on a virtual clock
  (harness/sim_vloop.py) and from there through the same driver buffer / post-processor / store; the model is fed the
  RUNNER's results (`Throughput.sampleOf`), so the plumbing in front of the calculator is inside the comparison.
  Time-period tasks with `ramp-up-time-period` are included and `time_period` is taken from the case's own clock readings
  (arrival of the response - start of the task).
* store faults (driver and executor streams): the store the post-processor writes to raises `RallyError` at a chosen run
  while a throughput record / another record is written or in `flush()`; model: the race aborts (`driverRunF`);
  oracle: every reported value counts every operation exactly once - or nothing more is reported.
* transport: whole simulated races (harness/sim_race.py, scenarios of c01, pipeline projection of c07 - read-only) judged with
  the shipments taken to be everything the samplers accepted, and the direct transport at sizes up to 2^17 with throughput as
  the observable (see the comments at `run_race` / `run_transport_direct`).
* configuration and time stamps (round 6): the Driver of every driver / executor / transport case is prepared by the real
  `Driver.prepare_benchmark` from a configuration object (down-sampling option absent / int / str), and the executor stream
  has throttled tasks whose samples are judged against the case's own log of when each request started.
Returned tuples / records are compared exactly (`float.as_integer_ratio`).  The direct oracle recomputes, with
`Fraction`s and without any bucket logic, what every emitted value has to be: (sum of the operations of
all samples fed so far except those sorted after the emitting sample in the current batch, each once) /
(largest elapsed time among them).
"""
from fractions import Fraction

from harness.framework import Stream, HarnessError


def _qlen(q):
    # a Sampler's buffer, whatever container it is (queue.Queue today)
    return q.qsize() if hasattr(q, "qsize") else len(q)

PROPERTY = "C06"
RULE = ("sample streams of 1-3 tasks x 1-4 clients (warm-up then normal samples, dyadic / integer / arbitrary double times, clients lagging "
        "behind each other, per-client percent_completed: iteration/time/runner based or None, last sample bumped to 1.0, optional equal-but-distinct "
        "Task objects) x 3 cuttings: (a) into calculate() calls on ONE calculator (all at once, one sample per call, random cuts with empty calls), "
        "(b) into worker shipments and post-processing runs of ONE Driver/SamplePostprocessor/metrics store (run at the end only, after every shipment, "
        "random incl. runs with an empty buffer; boundary stream: every placement of one or two runs between two clients' samples) + a final far-future "
        "flush sample per task that makes the carried state observable, (c) scripted runner results (throughput absent/None/0/0.0/-0.0/5e-324/1e300/2^70/"
        "negative/ordinary, weight and unit present or defaulted; iteration / runner-completes / time-period tasks, the latter with ramp-up) through real "
        "execute_single/AsyncExecutor/Sampler into (b); (b) and (c) with store faults (put throughput / put other / flush, any run); (d) whole simulated races (over-committed parallel elements, "
        "time-based tasks, ramp-up, pickled messages, periodic post-processing; branch counters in the evidence) and the direct transport at 2^0..2^17 "
        "samples; every Driver comes from the real Driver.prepare_benchmark with reporting/metrics.request.downsample.factor absent / int / str "
        "(1,2,3,5,8); (c) has throttled tasks (target-throughput number / 'N ops/s' / target-interval; on and behind schedule) with absolute_time "
        "taken from the case's own log of the runner calls; a case is non-trivial when at least one call starts with carried-over samples; "
        "signature = (model branch tags, cutting mode, number of tasks, oracle outcome[, samples after a batch with a 100 % sample])")
TRUSTED = [
    "IEEE-754 model RallyModel/Dbl.lean for `a - b`, `float(count)` and `count / interval` (validated bit-for-bit against CPython; the floats "
    "stream re-validates `-` and `/` on arbitrary doubles through every emitted value)",
    "Python's `sorted(key=...)` is the stable sort (model: stable insertion sort; tied to the code by the stable_sort stream)",
    "samples of one task are grouped by Task.__eq__/__hash__ (harness uses distinct task names, and equal copies of Task objects)",
]
ASSUMPTIONS = [
    "total_ops are non-negative integers and their running sum stays below 2^53 when times are Python ints",
    "within one task either every sample carries a runner-supplied throughput or none does (the mixed stream checks the model "
    "against the code there, but the property's oracle is not applied)",
    "times are finite doubles (or ints) of magnitude 0 or within [2^-500, 2^500]",
]

UNITS = ["docs", "ops", "byte", "MB", ""]


# ---------------------------------------------------------------------------------------------
# numbers
# ---------------------------------------------------------------------------------------------
def fs(x):
    """exact rational string of a float/int/Fraction"""
    f = Fraction(x)
    return f"{f.numerator}/{f.denominator}"


def num(s, as_int):
    f = Fraction(s)
    if as_int and f.denominator == 1:
        return int(f)
    x = float(f)
    if Fraction(x) != f:
        raise HarnessError(f"case number {s} is not a double")
    return x


def canon_value(v):
    if v is None:
        return None
    return fs(v)


# ---------------------------------------------------------------------------------------------
# real code
# ---------------------------------------------------------------------------------------------
_TASKS = {}


def _task(k, copy):
    from esrally import track

    def mk():
        op = track.Operation(f"op-{k}", track.OperationType.Bulk, param_source="driver-test-param-source")
        return track.Task(f"task-{k}", op)

    if copy:
        return mk()  # equal but not identical (as after pickling between actors)
    if k not in _TASKS:
        _TASKS[k] = mk()
    return _TASKS[k]


def build_sample(s, copy):
    from esrally.driver import driver
    from esrally import metrics

    ai = s.get("int", False)
    return driver.Sample(
        s["client"],
        num(s["abs"], ai),
        num(s["rs"], ai),
        num(s["ts"], ai),
        _task(s["task"], copy),
        metrics.SampleType.Normal if s["normal"] else metrics.SampleType.Warmup,
        None,
        -1,
        -1,
        -1,
        None if s["tput"] is None else num(s["tput"], ai or s.get("tput_int", False)),
        s["ops"],
        s["unit"],
        num(s["period"], ai),
        s.get("pc"),
    )


# Resource guard.  Before /repo commit d4fc0e7 the calculator appended the carried-over samples a second time in every
# call that finished no bucket (the defect this check found; class `carried-samples-recounted`), so its list doubled
# with each such call in a row.  Should that regress, cases must stay feasible: the harness stops feeding a case after
# STALE_CAP consecutive calls of one task that started with carried samples and emitted nothing (decided from the
# returned tuples only; 2^10 is still cheap).
STALE_CAP = 10


def run_impl(ctx, case):
    """feeds the calls one by one to one real calculator, evaluating the direct oracle after each call.
    returns (canonical output per call, model input per call, oracle outcome class)"""
    from esrally.driver import driver
    from esrally import metrics

    calc = driver.ThroughputCalculator()
    orc = Oracle(ctx, case)
    out_calls = []
    model_calls = []
    names = {}
    for ci, call in enumerate(case["calls"]):
        objs = [build_sample(s, case.get("copies", False) and (i + ci) % 2 == 1) for i, s in enumerate(call)]
        for s, o in zip(call, objs):
            names[o.task.name] = s["task"]
        model_call = [
            {"task": s["task"], "abs": fs(o.absolute_time), "rel": fs(o.relative_time), "period": fs(o.time_period), "ops": o.total_ops,
             "unit": o.total_ops_unit, "normal": o.sample_type == metrics.SampleType.Normal,
             "tput": None if o.throughput is None else fs(o.throughput)}
            for s, o in zip(call, objs)
        ]
        model_calls.append(model_call)
        if case["bi"] == 1:
            res = calc.calculate(objs)
        else:
            res = calc.calculate(objs, bucket_interval_secs=case["bi"])
        if not isinstance(res, dict):
            raise HarnessError("calculate did not return a dict")
        canon = []
        for task, tuples in res.items():
            lst = []
            for t in tuples:
                a, r, st, v, u = t
                lst.append([fs(a), fs(r), st == metrics.SampleType.Normal, canon_value(v), u])
            canon.append([names[task.name], lst])
        out_calls.append(canon)
        orc.step(ci, model_call, canon)
        if orc.stale_run() >= STALE_CAP and ci + 1 < len(case["calls"]):
            ctx.count("truncated-after-stale-run")
            break
    return out_calls, model_calls, orc.outcome


# ---------------------------------------------------------------------------------------------
# direct oracle (the property's own statement, no bucket logic, no model)
# ---------------------------------------------------------------------------------------------
def ulp_of(x):
    import math

    return Fraction(math.ulp(float(abs(x)))) if x != 0 else Fraction(0)


class Oracle:
    """reference counting per task, driven by the exact attribute values of the real Sample objects (`call`) and the
    canonical tuples the real code returned for that call (`outs`)"""

    def __init__(self, ctx, case):
        self.ctx = ctx
        self.exact = case.get("exact", True)
        self.by_task = {}
        self.outcome = "ok"

    def fail(self, cls, what, exp, obs):
        self.outcome = cls
        self.ctx.fail(cls, what, exp, obs)

    def stale_run(self):
        return max([st["stale_run"] for st in self.by_task.values()] + [0])

    def judge(self, ci, k, t, j, counted, merged, start, st):
        """failures (class, what, expected, observed) of tuple `t` read as emitted for merged[j]"""
        ctx, exact = self.ctx, self.exact
        a, r, normal, v, u = t
        out = []
        P = counted + merged[: j + 1]
        n = sum(s["ops"] for s in P)
        iv = max(Fraction(s["abs"]) - start for s in P)
        if v is None:
            return [("none-value", f"call {ci} task {k}: calculated throughput is None", None, t)]
        vf = Fraction(v)
        if vf < 0:
            out.append(("negative", f"call {ci} task {k}: negative throughput", ">= 0", v))
        if u != merged[j]["unit"] + "/s":
            out.append(("unit", f"call {ci} task {k}: unit is not '<ops unit>/s'", merged[j]["unit"] + "/s", u))
        if iv <= 0:
            out.append(("nonpositive-elapsed", f"call {ci} task {k}: value emitted although no positive time has elapsed", None, t))
            return out
        want = Fraction(n) / iv
        if n >= 2 ** 53:
            # int -> float conversion of the count rounds once more
            good = abs(vf - want) <= want / 2 ** 50
        elif exact:
            good = vf == Fraction(float(want))
        else:
            # elapsed time is computed in doubles: |error| <= a few ulp of the largest time involved
            err = 4 * max(ulp_of(Fraction(s["abs"])) for s in P) + 4 * ulp_of(start)
            if iv <= 8 * err:
                ctx.count("oracle:ill-conditioned-skipped")
                good = True
            else:
                lo, hi = Fraction(n) / (iv + err), Fraction(n) / (iv - err)
                good = lo * (1 - Fraction(1, 2 ** 50)) <= vf <= hi * (1 + Fraction(1, 2 ** 50))
        if not good:
            # over-count after a call that started with carried samples and emitted nothing = the defect fixed by d4fc0e7
            cls = "carried-samples-recounted" if st["stale"] and vf > want else "rate-mismatch"
            out.append((cls, f"call {ci} task {k}: emitted throughput is not (operations of the samples up to the emitting one, each once) / elapsed",
                        {"ops": n, "elapsed": fs(iv), "value": fs(Fraction(float(want)))}, {"value": v, "tuple": t}))
        return out

    def step(self, ci, call, outs, truncated=False):
        """truncated: the store failed during this run, the records are only required to be a prefix of the run's records"""
        ctx, exact, fail = self.ctx, self.exact, self.fail
        groups = {}
        for s in call:
            groups.setdefault(s["task"], []).append(s)
        got = {k: v for k, v in outs}
        if list(groups.keys()) != [k for k, _ in outs]:
            fail("task-keys", f"call {ci}: returned tasks differ from the tasks that have samples in the call", list(groups.keys()), [k for k, _ in outs])
            return
        for k, batch in groups.items():
            st = self.by_task.setdefault(k, {"fed": [], "pending": [], "counted": [], "start": None, "types": [], "stale": False, "stale_run": 0, "mode": None})
            tuples = got[k]
            modes = {s["tput"] is None for s in batch}
            mode = "calc" if modes == {True} else ("pass" if modes == {False} else "mixed")
            if st["mode"] is None:
                st["mode"] = mode
            elif st["mode"] != mode:
                st["mode"] = "mixed"
            if st["mode"] == "mixed":
                if not tuples:
                    st["stale_run"] += 1  # resource guard only (never reset: a cleared list cannot be told from outside)
                continue  # outside the property's domain (ASSUMPTIONS)
            merged = sorted(batch + st["pending"], key=lambda s: Fraction(s["abs"]))
            if st["mode"] == "pass":
                exp = [[s["abs"], s["rel"], s["normal"], s["tput"], s["unit"] + "/s"] for s in merged]
                if tuples != (exp[: len(tuples)] if truncated else exp):
                    fail("passthrough", f"call {ci} task {k}: runner-supplied throughput not passed through one per sample", exp, tuples)
                continue
            if st["start"] is None:
                f = merged[0]
                a, p = Fraction(f["abs"]), Fraction(f["period"])
                # start_time = first.absolute_time - first.time_period (a double subtraction in the code)
                st["start"] = a - p if exact else Fraction(float(a) - float(p))
            start = st["start"]
            counted = st["counted"]
            had_pending = bool(st["pending"])
            pos = 0
            last_j = -1
            for t in tuples:
                a, r, normal, v, u = t
                cand = [j for j in range(pos, len(merged)) if merged[j]["abs"] == a and merged[j]["rel"] == r]
                if not cand:
                    fail("unknown-emitter", f"call {ci} task {k}: value attributed to no sample of the call (or out of time order)", None, t)
                    break
                if len(cand) > 1:
                    # several samples of the call carry the tuple's time stamps (clients that start a request at the same
                    # instant): the tuple is right if it is right for one of them
                    ctx.count("oracle:ambiguous-emitter")
                st["types"].append(normal)
                verdicts = [self.judge(ci, k, t, j, counted, merged, start, st) for j in cand]
                best = next((i for i, vd in enumerate(verdicts) if not vd), 0)
                j = cand[best]
                pos = j + 1
                last_j = j
                for cls, what, exp, obs in verdicts[best]:
                    fail(cls, what, exp, obs)
            # bookkeeping of the reference counting
            if last_j >= 0:
                st["counted"] = counted + merged[: last_j + 1]
                st["pending"] = merged[last_j + 1:]
                st["stale_run"] = 0
            else:
                st["pending"] = merged
                if had_pending:
                    st["stale"] = True  # a call that started with carried samples and emitted nothing
                    st["stale_run"] += 1
            st["fed"] += batch
            # sample types never go back to warm-up
            ty = st["types"]
            if any(ty[i] and not ty[i + 1] for i in range(len(ty) - 1)):
                fail("type-regression", f"call {ci} task {k}: a warm-up value follows a normal value", None, ty)
            # a normal sample and positive elapsed time -> a normal-type value exists
            if not truncated and any(s["normal"] for s in st["fed"]) and any(Fraction(s["abs"]) > start for s in st["fed"]):
                if not any(ty):
                    fail("no-normal-value", f"call {ci} task {k}: normal samples and positive elapsed time but no normal-type throughput value", "some", ty)


# ---------------------------------------------------------------------------------------------
# generators
# ---------------------------------------------------------------------------------------------
DY_INCS = [Fraction(1, 16), Fraction(1, 8), Fraction(1, 4), Fraction(1, 4), Fraction(1, 2), Fraction(1, 2), Fraction(1), Fraction(1), Fraction(3, 2), Fraction(2), Fraction(5)]
DY_LAT = [Fraction(0), Fraction(0), Fraction(1, 16), Fraction(1, 8), Fraction(1, 2), Fraction(4)]
OPS = [0, 1, 1, 2, 5, 100, 1000, 5000]


def gen_task_queues(rng, k, exact, mode, int_times, big_ops):
    """per-client sample lists of one task"""
    unit = rng.choice(UNITS)
    if int_times:
        T0 = Fraction(rng.choice([1000, 38595, 1470838595]))
        ts = Fraction(rng.choice([0, 17]))
    elif exact:
        T0 = Fraction(rng.choice([1000, 38595, 1470838595])) + Fraction(rng.randrange(0, 64), 8)
        ts = Fraction(rng.choice([0, 5000])) + Fraction(rng.randrange(0, 8), 4)
    else:
        T0 = Fraction(1470838595.0 + rng.random() * 1000)
        ts = Fraction(rng.random() * 10000)
    nclients = rng.choice([1, 1, 2, 3, 4])
    queues = []
    for c in range(nclients):
        n = rng.choice([1, 2, 3, 5, 8, 13, 20])
        warm = rng.choice([0, 0, 1, 2, 3, n])
        e = Fraction(0)
        q = []
        slow = rng.random() < 0.3  # sub-bucket spacing -> many samples per bucket
        for i in range(n):
            if int_times:
                e += rng.choice([0, 1, 1, 2, 3])
                d = Fraction(rng.choice([0, 0, 1]))
            elif exact:
                e += rng.choice(DY_INCS[:6] if slow else DY_INCS)
                d = rng.choice(DY_LAT)
            else:
                e += Fraction(rng.choice([0.01, 0.1, 0.3, 1.0, 2.5]) * (0.5 + rng.random()))
                d = Fraction(rng.random() * rng.choice([0.0, 0.01, 0.2]))
            a = T0 + e - d
            if not exact and not int_times:
                a = Fraction(float(a))
                period = Fraction(float(e))
                rs = Fraction(float(ts + e + Fraction(c, 1024)))
            else:
                period = e
                rs = ts + e + (Fraction(0) if int_times else Fraction(c, 1024))
            if int_times:
                rs = ts + 8 * i + c  # unique relative time per sample of a task
            ops = rng.choice(OPS)
            if big_ops and rng.random() < 0.3:
                ops = rng.choice([2 ** 53 + 1, 2 ** 54 + 3, 2 ** 60 + 12345])
            tput = None
            tput_int = False
            if mode == "pass" or (mode == "mixed" and rng.random() < 0.5):
                spec = gen_tput_value(rng)  # includes the edge values: 0, 0.0, -0.0, smallest / huge doubles, huge int, negative
                tput = spec["q"]
                tput_int = spec["kind"] == "int"
            q.append({"task": k, "client": c, "abs": fs(a), "rs": fs(rs), "ts": fs(ts), "period": fs(period), "ops": ops, "unit": unit,
                      "normal": i >= warm, "tput": tput, "tput_int": tput_int, "int": int_times, "pc": None})
        # percent_completed is per CLIENT: iteration based ((i+1)/n), time based (elapsed/period, may stop below 100 %),
        # reported by the runner, or None (eternal task); the last sample is bumped to 1.0 when the client completes
        # (iterations exhausted, runner completed, or external completion while other clients are still running)
        pmode = rng.choice(["iterations", "iterations", "time", "runner", "none"])
        horizon = e * Fraction(rng.choice([1, 1, 5, 4]), rng.choice([1, 1, 4, 3])) if e > 0 else Fraction(1)
        for i, smp in enumerate(q):
            if pmode == "iterations":
                pc = (i + 1) / n
            elif pmode == "time":
                pc = min(1.0, float(Fraction(smp["period"]) / horizon))
            elif pmode == "runner":
                pc = round(0.05 + 0.9 * (i + 1) / n, 3) if rng.random() < 0.8 else None
            else:
                pc = None
            smp["pc"] = pc
        if q and rng.random() < (0.9 if pmode in ("runner", "none") else 0.4):
            q[-1]["pc"] = 1.0
        queues.append(q)
    return queues, T0


def merge_queues(rng, queues):
    """arrival order at the driver: per client in order, clients interleaved, some lag behind"""
    qs = [list(q) for q in queues if q]
    weights = [rng.choice([1, 1, 1, 0.2, 0.05]) for _ in qs]
    in_time_order = rng.random() < 0.25
    if in_time_order:
        allq = [s for q in qs for s in q]
        allq.sort(key=lambda s: Fraction(s["abs"]))
        return allq
    out = []
    while qs:
        i = rng.choices(range(len(qs)), weights=weights)[0]
        burst = rng.choice([1, 1, 2, 3, 8])
        out += qs[i][:burst]
        qs[i] = qs[i][burst:]
        if not qs[i]:
            del qs[i]
            del weights[i]
    return out


def cut(rng, stream, mode):
    if mode == "all":
        return [list(stream)]
    if mode == "singles":
        return [[s] for s in stream]
    p = rng.choice([0.05, 0.15, 0.4, 0.7])
    calls, cur = [], []
    for s in stream:
        cur.append(s)
        if rng.random() < p:
            calls.append(cur)
            cur = []
            while rng.random() < 0.15:
                calls.append([])
    calls.append(cur)
    return calls


def flush_samples(rng, stream, tmax, int_times):
    """one far-future sample per task: forces a bucket, making the carried state observable"""
    out = []
    seen = {}
    for s in stream:
        seen.setdefault(s["task"], s)
    for k, s in seen.items():
        f = dict(s)
        a = tmax + 64 + k
        f.update({"abs": fs(a), "rs": fs(100000 + k), "ts": "0/1", "period": fs(Fraction(1000)), "ops": 1, "normal": True, "client": 99, "pc": 1.0})
        if s["tput"] is not None:
            f["tput"] = fs(1)
        out.append(f)
    return out


def gen_stream_cases(rng, exact=True, pass_prob=0.0, mixed_prob=0.0, allow_int=True):
    ntasks = rng.choice([1, 1, 1, 2, 3])
    int_times = allow_int and exact and rng.random() < 0.1
    big_ops = (not int_times) and rng.random() < 0.05
    queues = []
    tmax = Fraction(0)
    for k in range(ntasks):
        r = rng.random()
        mode = "mixed" if r < mixed_prob else ("pass" if r < mixed_prob + pass_prob else "calc")
        qs, _ = gen_task_queues(rng, k, exact, mode, int_times, big_ops)
        queues += qs
    stream = merge_queues(rng, queues)
    tmax = max(Fraction(s["abs"]) for s in stream)
    bi = rng.choice([1, 1, 1, 1, 1, 1, 2, 5, 0])
    flush = flush_samples(rng, stream, Fraction(int(tmax)), int_times)
    copies = rng.random() < 0.3
    for mode in ("all", "singles", "random"):
        calls = cut(rng, stream, mode)
        if rng.random() < 0.5:
            calls.append(flush)
        else:
            calls[-1] = calls[-1] + flush
        yield {"bi": bi, "exact": exact or int_times, "copies": copies, "cut": mode, "ntasks": ntasks, "calls": calls}


def _gen(ctx, **kw):
    n = 0
    while n < ctx.budget:
        for case in gen_stream_cases(ctx.rng, **kw):
            if n >= ctx.budget:
                break
            n += 1
            yield case


def gen_dyadic(ctx):
    yield from _gen(ctx, exact=True)


def gen_floats(ctx):
    yield from _gen(ctx, exact=False, allow_int=False)


def gen_pass(ctx):
    yield from _gen(ctx, exact=True, pass_prob=0.6)


def gen_mixed(ctx):
    yield from _gen(ctx, exact=True, mixed_prob=0.6, pass_prob=0.1)


def gen_boundary(ctx):
    """hand-made boundary streams of the case splits: elapsed == bucket exactly, elapsed 0 / negative, ties in absolute
    time between carried and new samples, sample-type change on the carried tail, two calls without a finished bucket"""
    rng = ctx.rng

    def S(a, period, ops=10, normal=True, task=0, rel=None, unit="docs", tput=None, client=0):
        a, period = Fraction(a), Fraction(period)
        S.n += 1
        return {"task": task, "client": client, "abs": fs(a), "rs": fs(Fraction(S.n) if rel is None else Fraction(rel)), "ts": "0/1", "period": fs(period),
                "ops": ops, "unit": unit, "normal": normal, "tput": tput, "int": False}

    S.n = 0
    H = Fraction(1, 2)
    base = [
        # elapsed exactly equal to the bucket, just below, just above
        [[S(100 + H, H)], [S(101, 1)], [S(102, 2)]],
        [[S(100 + H, H)], [S(101 - Fraction(1, 1024), 1)], [S(101, 1)], [S(101 + Fraction(1, 1024), 1)]],
        # no elapsed time at all (abs - period == abs): interval 0 -> nothing may be emitted
        [[S(100, 0)], [S(100, 0)], [S(100, 0), S(100, 0)], [S(101, 1)]],
        # negative elapsed
        [[S(100, 0)], [S(99, 0)], [S(98, 0)], [S(100 + H, 0)]],
        # two and three calls in a row without a finished bucket
        [[S(100 + H, H)], [S(100 + 5 * H / 4, H)], [S(100 + 3 * H / 2, H)], [S(101, 1)]],
        [[S(100 + H, H)], [S(100 + 5 * H / 4, H)], [S(100 + 3 * H / 2, H)], [S(100 + 7 * H / 4, H)], [S(101, 1)]],
        # ties in absolute time between carried and new samples
        [[S(100 + H, H)], [S(100 + 3 * H / 2, H, ops=1)], [S(100 + 3 * H / 2, H, ops=2)], [S(100 + 3 * H / 2, H, ops=4), S(101, 1, ops=8)]],
        # warm-up -> normal on the carried tail; normal sample older than the warm-up ones
        [[S(100 + H, H, normal=False)], [S(100 + 3 * H / 2, H, normal=False)], [S(100 + 5 * H / 4, H, normal=True)], [S(102, 2, normal=False)]],
        # late client: older samples arrive after newer ones were processed
        [[S(100 + H, H), S(103, 3)], [S(101, 1, client=1), S(102, 2, client=1)], [S(102 + H, 2, client=1)], [S(104, 4)]],
        # the unit tests of the repository
        [[S(1470838595, 1, ops=3000, normal=False), S(1470838595 + H, 1, ops=2500)]],
    ]
    n = 0
    while n < ctx.budget:
        for calls in base:
            for bi in (1, 2, 0):
                for mode in ("as-is", "all", "singles"):
                    if n >= ctx.budget:
                        return
                    n += 1
                    flat = [s for c in calls for s in c]
                    cc = calls if mode == "as-is" else ([flat] if mode == "all" else [[s] for s in flat])
                    tmax = max(Fraction(s["abs"]) for s in flat)
                    fl = S(int(tmax) + 64, 1000, ops=1)
                    yield {"bi": bi, "exact": True, "copies": False, "cut": mode, "ntasks": 1, "calls": [list(c) for c in cc] + [[fl]]}
        # randomised variants: perturb the times of a base stream by small dyadics
        calls = rng.choice(base)
        d = Fraction(rng.randrange(-4, 5), 64)
        cc = [[dict(s, abs=fs(Fraction(s["abs"]) + d * rng.choice([0, 1]))) for s in c] for c in calls]
        n += 1
        yield {"bi": 1, "exact": True, "copies": False, "cut": "perturbed", "ntasks": 1, "calls": cc}


# ---------------------------------------------------------------------------------------------
# run
# ---------------------------------------------------------------------------------------------
def run_case(ctx, case):
    impl_calls, model_calls, outcome = run_impl(ctx, case)
    m = ctx.model("throughput", "run", {"bi": case["bi"], "calls": model_calls})
    if "r" not in m:
        raise HarnessError(f"model rejected the case: {m}")
    tags = sorted(m.get("tags", []))
    if m["r"]["calls"] != impl_calls:
        # report the first differing call only
        for i, (a, b) in enumerate(zip(m["r"]["calls"], impl_calls)):
            if a != b:
                ctx.diff(f"calculate() call {i}", a, b)
                break
        else:
            ctx.diff("number of calls", len(m["r"]["calls"]), len(impl_calls))
    ctx.count("cut:" + str(case.get("cut")))
    ctx.count("calls", len(case["calls"]))
    ctx.count("samples", sum(len(c) for c in case["calls"]))
    ctx.count("outcome:" + outcome)
    ctx.sig([tags, case.get("cut"), case.get("ntasks"), outcome], nontrivial="carry" in tags)


# ---------------------------------------------------------------------------------------------
# the owner of the calculator: Driver.update_samples / post_process_samples -> SamplePostprocessor -> metrics store
# ---------------------------------------------------------------------------------------------
def gen_faults(rng, nruns, p=0.3):
    """store failures: which run, where in the run (before / during / after the throughput records), one or several"""
    if nruns <= 0 or rng.random() >= p:
        return []
    out = []
    for _ in range(rng.choice([1, 1, 2])):
        out.append({"run": rng.randrange(nruns), "kind": rng.choice(["flush", "flush", "put_throughput", "put_other"]), "nth": rng.choice([0, 0, 1, 2, 5])})
    return out


def gen_driver_cases(rng, exact=True, pass_prob=0.0):
    """one race fragment: clients spread over workers, every worker ships its samples in chunks (UpdateSamples), the
    driver post-processes at arbitrary points (timer, join point): 3 placements of the runs for the same shipments"""
    ntasks = rng.choice([1, 1, 2, 3])
    int_times = exact and rng.random() < 0.1
    queues = []
    for k in range(ntasks):
        mode = "pass" if rng.random() < pass_prob else "calc"
        qs, _ = gen_task_queues(rng, k, exact, mode, int_times, False)
        queues += qs
    nworkers = rng.choice([1, 2, 2, 3])
    workers = [[] for _ in range(nworkers)]
    for q in queues:
        workers[rng.randrange(nworkers)] += q  # a worker runs several clients (of several tasks)
    shipments = []
    for w in workers:
        w.sort(key=lambda smp: Fraction(smp["abs"]))  # a worker's sampler queue is in completion order
        i = 0
        while i < len(w):
            n = rng.choice([1, 1, 2, 3, 5, 8])
            shipments.append(w[i:i + n])
            i += n
    # arrival order of the shipments at the driver: per worker in order, workers interleaved with lags
    order = merge_queues(rng, [[{"abs": sh[0]["abs"], "sh": sh} for sh in shipments if sh[0] in w] for w in workers])
    ships = [o["sh"] for o in order]
    stream = [smp for sh in ships for smp in sh]
    if not stream:
        return
    tmax = max(Fraction(smp["abs"]) for smp in stream)
    flush = flush_samples(rng, stream, Fraction(int(tmax)), int_times)
    downsample = rng.choice([1, 1, 1, 2, 2, 3, 5, 8])
    copies = rng.random() < 0.3
    for placement in ("end-only", "every-shipment", "random"):
        events = []
        p = rng.choice([0.1, 0.3, 0.6])
        for sh in ships:
            events.append(sh)
            if placement == "every-shipment" or (placement == "random" and rng.random() < p):
                events.append("pp")
                while placement == "random" and rng.random() < 0.15:
                    events.append("pp")  # nothing shipped in between
        events.append("pp")  # join point: everything shipped so far is post-processed
        events.append(flush)
        events.append("pp")
        yield {"exact": exact or int_times, "copies": copies, "cut": placement, "ntasks": ntasks, "downsample": downsample, "events": events,
               "faults": gen_faults(rng, len([e for e in events if e == "pp"]) - 1)}


def gen_driver_dyadic(ctx):
    n = 0
    while n < ctx.budget:
        for case in gen_driver_cases(ctx.rng, exact=True, pass_prob=0.1):
            if n >= ctx.budget:
                break
            n += 1
            yield case


def gen_driver_floats(ctx):
    n = 0
    while n < ctx.budget:
        for case in gen_driver_cases(ctx.rng, exact=False):
            if n >= ctx.budget:
                break
            n += 1
            yield case


def gen_driver_boundary(ctx):
    """two clients of one task, in-order samples, EVERY placement of one or two post-processing runs (the window in which
    one client has reported 100 % and the other has not is hit by construction), x progress modes"""
    rng = ctx.rng
    n = 0

    def S(c, a, period, pc, ops=10, normal=True, task=0):
        S.n += 1
        return {"task": task, "client": c, "abs": fs(Fraction(a)), "rs": fs(Fraction(S.n)), "ts": "0/1", "period": fs(Fraction(period)), "ops": ops,
                "unit": "docs", "normal": normal, "tput": None, "int": False, "pc": pc}

    S.n = 0
    H = Fraction(1, 2)
    while n < ctx.budget:
        nA, nB = rng.choice([1, 2, 3]), rng.choice([2, 3, 4])
        step = rng.choice([H, Fraction(1), Fraction(5, 4)])
        A = [S(0, 100 + (i + 1) * step, (i + 1) * step, (i + 1) / nA if rng.random() < 0.8 else None, normal=rng.random() < 0.8 or i > 0) for i in range(nA)]
        B = [S(1, 100 + (i + 1) * step + H / 2, (i + 1) * step + H / 2, (i + 1) / nB, ops=rng.choice([1, 10, 100])) for i in range(nB)]
        if rng.random() < 0.5:
            A[-1]["pc"] = 1.0
        stream = sorted(A + B, key=lambda smp: Fraction(smp["abs"]))
        fl = [S(99, 100 + 64, 1000, 1.0, ops=1)]
        L = len(stream)
        cuts = [(i,) for i in range(L + 1)] + [(i, j) for i in range(L + 1) for j in range(i, L + 1)]
        rng.shuffle(cuts)
        for cut in cuts[:12]:
            if n >= ctx.budget:
                return
            n += 1
            events, prev = [], 0
            for c in cut:
                for smp in stream[prev:c]:
                    events.append([smp])
                events.append("pp")
                prev = c
            for smp in stream[prev:]:
                events.append([smp])
            events += ["pp", fl, "pp"]
            yield {"exact": True, "copies": False, "cut": "all-placements", "ntasks": 1, "downsample": rng.choice([1, 1, 2, 3]), "events": events,
                   "faults": gen_faults(rng, len(cut) + 1, p=0.25)}


_STORE_CFG = None


def _new_store():
    import datetime
    from esrally import config, metrics

    cfg = config.Config()
    cfg.add(config.Scope.application, "system", "env.name", "c06")
    cfg.add(config.Scope.application, "track", "params", {})
    store = metrics.InMemoryMetricsStore(cfg)
    store.open("c06-race", datetime.datetime(2016, 1, 31), "track", "challenge", "car", create=True)
    return cfg, store


class _Holder:
    def __init__(self, all_hosts=None, all_client_options=None):
        self.all_hosts = all_hosts
        self.all_client_options = all_client_options
        self.uses_static_responses = False


class _StaticClientFactory:
    def __init__(self, *args, **kwargs):
        from unittest import mock

        self.es = mock.MagicMock()

    def create(self):
        return self.es


def _new_driver(case):
    """a real Driver prepared the way a race prepares it: `Driver.prepare_benchmark` reads the configuration (in particular
    reporting/metrics.request.downsample.factor, in the spelling the case chose: absent, an int, or the string an ini file
    yields), opens the metrics store and creates the post-processor.  Returns (driver, its store, the option as configured)."""
    import datetime
    from unittest import mock

    from esrally import config, track
    from esrally.driver import driver

    ds = case.get("downsample", 1)
    spelling = case.get("ds_spelling")
    if spelling is None:
        n = len(case.get("events", [])) + len(case.get("tasks", []))
        spelling = "absent" if ds == 1 and n % 2 == 0 else ("str" if (ds + n) % 2 == 0 else "int")
    opt = None if (spelling == "absent" and ds == 1) else (str(ds) if spelling == "str" else ds)
    cfg = config.Config()
    A = config.Scope.application
    cfg.add(A, "system", "env.name", "c06")
    cfg.add(A, "system", "time.start", datetime.datetime(2016, 1, 31))
    cfg.add(A, "system", "race.id", "6ebc6e53-ee20-4b0c-99b4-09697987e9f4")
    cfg.add(A, "system", "available.cores", 8)
    cfg.add(A, "system", "quiet.mode", True)
    cfg.add(A, "node", "root.dir", "/tmp")
    cfg.add(A, "track", "challenge.name", "challenge")
    cfg.add(A, "track", "params", {})
    cfg.add(A, "track", "test.mode.enabled", False)
    cfg.add(A, "telemetry", "devices", [])
    cfg.add(A, "telemetry", "params", {})
    cfg.add(A, "mechanic", "car.names", ["car"])
    cfg.add(A, "mechanic", "skip.rest.api.check", True)
    cfg.add(A, "client", "hosts", _Holder(all_hosts={"default": ["localhost:9200"]}))
    cfg.add(A, "client", "options", _Holder(all_client_options={"default": {}}))
    cfg.add(A, "driver", "load_driver_hosts", ["localhost"])
    cfg.add(A, "reporting", "datastore.type", "in-memory")
    if opt is not None:
        cfg.add(A, "reporting", "metrics.request.downsample.factor", opt)
    task = track.Task(name="c06-any", operation=track.Operation("c06-any", operation_type="bulk"), clients=1)
    t = track.Track(name="track", description="c06", challenges=[track.Challenge("challenge", default=True, schedule=[task])])
    d = driver.Driver(mock.MagicMock(), cfg, es_client_factory_class=_StaticClientFactory)
    d.prepare_benchmark(t)
    store = d.metrics_store
    if store is None or not hasattr(store, "docs"):
        raise HarnessError("prepare_benchmark did not open an in-memory metrics store")
    return d, store, opt


def _msample(k, o):
    """model / oracle view of a real Sample object"""
    from esrally import metrics

    return {"task": k, "abs": fs(o.absolute_time), "rel": fs(o.relative_time), "period": fs(o.time_period), "ops": o.total_ops,
            "unit": o.total_ops_unit, "normal": o.sample_type == metrics.SampleType.Normal,
            "tput": None if o.throughput is None else fs(o.throughput)}


def run_driver_case(ctx, case):
    events = []
    for ei, ev in enumerate(case["events"]):
        if ev == "pp":
            events.append("pp")
            continue
        objs = [build_sample(smp, case.get("copies", False) and (i + ei) % 2 == 1) for i, smp in enumerate(ev)]
        triples = []
        for smp, o in zip(ev, objs):
            ms = _msample(smp["task"], o)
            triples.append((o, ms, ms, smp["client"], smp.get("pc")))
        events.append(triples)
    _drive(ctx, case, events)


def _drive(ctx, case, events):
    """real Driver buffer + real SamplePostprocessor + real InMemoryMetricsStore; the records of every post-processing run
    are compared with the Lean model (`driverRun`) and judged by the same direct oracle as the calculator streams.
    events: "pp" | list of (real Sample, model sample, oracle sample, client id, percent_completed)"""
    from esrally.driver import driver
    from esrally import metrics

    from esrally import exceptions

    d, store, ds_opt = _new_driver(case)
    spy = []
    orig = store.put_value_cluster_level
    orig_flush = store.flush
    # fault injection: the store the post-processor writes to raises RallyError (what EsMetricsStore does when the metrics
    # cluster times out / rejects a bulk) at a chosen point of a chosen run: while a throughput record is written, while
    # another record is written (i.e. before calculate()), or in the final flush() (i.e. after calculate())
    cur = {"fault": None, "tp": 0, "other": 0, "fired": False}

    def boom():
        cur["fired"] = True
        raise exceptions.RallyError("injected metrics store failure")

    def put_value_cluster_level(*a, **kw):
        f = cur["fault"]
        is_tp = kw.get("name") == "throughput"
        if f is not None and not cur["fired"]:
            if f["kind"] == "put_throughput" and is_tp and cur["tp"] == f["nth"]:
                boom()
            if f["kind"] == "put_other" and not is_tp and cur["other"] == f["nth"]:
                boom()
        cur["tp" if is_tp else "other"] += 1
        spy.append((a, kw))
        return orig(*a, **kw)

    def flush(*a, **kw):
        f = cur["fault"]
        if f is not None and not cur["fired"] and f["kind"] == "flush":
            boom()
        return orig_flush(*a, **kw)

    store.put_value_cluster_level = put_value_cluster_level
    store.flush = flush
    faults = {f["run"]: f for f in case.get("faults", [])}
    aborted = False
    swallowed = False
    orc = Oracle(ctx, case)
    ctx.count("downsample-option:" + ("absent" if ds_opt is None else type(ds_opt).__name__ + ":" + str(ds_opt)))
    kept_runs = []  # per healthy run: number of samples that got request-metric (latency) records
    names = {}
    model_events, impl_runs = [], []
    pending_batch = []  # reference semantics of the buffer: everything shipped since the previous run
    ci = 0
    for ei, ev in enumerate(events):
        if ev != "pp":
            for o, ms, osmp, _c, _pc in ev:
                names[o.task.name] = ms["task"]
            model_events.append([t[1] for t in ev])
            pending_batch += [t[2] for t in ev]
            d.update_samples([t[0] for t in ev])
            continue
        n_spy, n_docs = len(spy), len(store.docs)
        cur.update({"fault": faults.get(ci), "tp": 0, "other": 0, "fired": False})
        try:
            d.post_process_samples()
        except exceptions.RallyError as e:
            if not cur["fired"]:
                raise HarnessError(f"post_process_samples raised without an injected fault: {e}")
            aborted = True  # the error leaves the driver: the actor reports a BenchmarkFailure, the race is over
        if cur["fired"]:
            f = cur["fault"]
            model_events.append({"fault": None if f["kind"] == "flush" else (f["nth"] if f["kind"] == "put_throughput" else 0)})
            ctx.count("store-fault:" + f["kind"])
            if not aborted:
                swallowed = True
        else:
            model_events.append("pp")
        recs = []
        for a, kw in spy[n_spy:]:
            if a or kw.get("name") is None:
                ctx.fail("store-call", "metrics store called positionally / without a name", None, str((a, kw))[:300])
                continue
            if kw["name"] != "throughput":
                continue
            if kw.get("task") not in names:
                ctx.fail("task-keys", "throughput record for a task that never had a sample", None, kw.get("task"))
                continue
            recs.append([names[kw["task"]], [fs(kw["absolute_time"]), fs(kw["relative_time"]), kw["sample_type"] == metrics.SampleType.Normal,
                                             canon_value(kw["value"]), kw["unit"]]])
        # the documents that reached the store are these records
        tdocs = [doc for doc in store.docs[n_docs:] if doc.get("name") == "throughput"]
        want_docs = [(f"task-{k}", t[3], t[4], "normal" if t[2] else "warmup") for k, t in recs]
        got_docs = [(doc.get("task"), canon_value(doc.get("value")), doc.get("unit"), doc.get("sample-type")) for doc in tdocs]
        if want_docs != got_docs:
            orc.fail("store-record", f"run {ci}: throughput documents in the metrics store differ from the records handed to it", want_docs[:5], got_docs[:5])
        impl_runs.append(recs)
        kept_runs.append(None if cur["fired"] else sum(1 for a, kw in spy[n_spy:] if kw.get("name") == "latency"))
        # oracle: group by task in the order of the batch; no record may belong to a task without samples in the batch
        groups = []
        for smp in pending_batch:
            if smp["task"] not in groups:
                groups.append(smp["task"])
        stray = [r for r in recs if r[0] not in groups]
        if stray:
            orc.fail("task-keys", f"run {ci}: throughput records for tasks without samples in the batch", groups, stray[:3])
        if pending_batch:
            canon = [[k, [r[1] for r in recs if r[0] == k]] for k in groups]
            orc.step(ci, pending_batch, canon, truncated=cur["fired"])
        elif recs:
            orc.fail("task-keys", f"run {ci}: records although nothing was shipped since the last run", [], recs[:3])
        pending_batch = []
        ci += 1
        if aborted:
            ctx.count("aborted-by-store-fault")
            break
        if orc.stale_run() >= STALE_CAP and ei + 1 < len(events):
            ctx.count("truncated-after-stale-run")
            break
    m = ctx.model("throughput", "pp_run", {"events": model_events, "downsample": None if ds_opt is None else int(ds_opt)})
    if "r" not in m:
        raise HarnessError(f"model rejected the case: {m}")
    tags = sorted(m.get("tags", []))
    if "kept" in m["r"] and m["r"]["kept"] != kept_runs[: len(m["r"]["kept"])]:
        ctx.diff("samples with request-metric records per run (down-sampling)", m["r"]["kept"], kept_runs)
    if m["r"]["runs"] != impl_runs:
        for i, (a, b) in enumerate(zip(m["r"]["runs"], impl_runs)):
            if a != b:
                ctx.diff(f"post-processing run {i}", a, b)
                break
        else:
            ctx.diff("number of runs", len(m["r"]["runs"]), len(impl_runs))
    # input class: a task gets real samples in a batch AFTER the batch in which one of its clients reported 100 %
    early_done = False
    done_tasks = set()
    batch_done = set()
    nsamples = 0
    for ev in events:
        if ev == "pp":
            done_tasks |= batch_done
            batch_done = set()
            continue
        for _o, ms, _os, client, pc in ev:
            nsamples += 1
            if ms["task"] in done_tasks and client != 99:
                early_done = True
            if pc is not None and pc >= 1.0:
                batch_done.add(ms["task"])
    ctx.count("cut:" + str(case.get("cut")))
    ctx.count("runs", ci)
    ctx.count("samples", nsamples)
    ctx.count("outcome:" + orc.outcome)
    ctx.count("class:samples-after-a-100%-batch" if early_done else "class:no-samples-after-a-100%-batch")
    if swallowed:
        ctx.count("store-fault-swallowed-race-continued")
    ctx.sig([tags, case.get("cut"), case.get("ntasks"), orc.outcome, early_done, aborted, swallowed] + list(case.get("sig_extra", [])),
            nontrivial="carry" in tags or bool(case.get("sig_extra")) or aborted)


# ---------------------------------------------------------------------------------------------
# before the calculator: runner result -> execute_single -> AsyncExecutor -> Sampler -> Sample -> driver -> store
# ---------------------------------------------------------------------------------------------
C06_OP = "c06-sim-op"
# values a runner may legally report as its own throughput: exact zero of both kinds (an idle polling interval), negative zero,
# the smallest and a huge double, a huge int, negative, ordinary ints and floats
TPUT_EDGE = [("int", 0), ("float", 0.0), ("float", -0.0), ("float", 5e-324), ("float", 1e-300), ("float", 1e300), ("int", 2 ** 70),
             ("float", -2.5), ("int", 8000), ("float", 12.5), ("float", 0.001), ("int", 3), ("float", 123456.789), ("int", 1)]


def gen_tput_value(rng):
    kind, v = rng.choice(TPUT_EDGE) if rng.random() < 0.85 else ("float", rng.random() * 10 ** rng.randrange(-3, 6))
    if rng.random() < 0.35:
        kind, v = rng.choice(TPUT_EDGE[:3])  # idle polls are common for polling runners
    return {"kind": kind, "q": fs(v)}


def tput_py(spec):
    f = Fraction(spec["q"])
    if spec["kind"] == "int":
        return int(f)
    x = float(f)
    if Fraction(x) != f:
        raise HarnessError("supplied throughput is not a double")
    return x


def gen_exec_cases(rng):
    """1-2 tasks run by real AsyncExecutors on a virtual clock; the runner's return values are scripted per call"""
    ntasks = rng.choice([1, 1, 2])
    tasks = []
    for k in range(ntasks):
        mode = rng.choice(["supplied", "supplied", "supplied", "computed", "mixed"])
        unit = rng.choice(["docs", "ops", "byte", None])
        loop = rng.choice(["iterations", "iterations", "runner-completes", "time", "time"])
        # a runner that supplies throughput / decides completion itself must be called by one client only (driver.py)
        nclients = 1 if loop == "runner-completes" else rng.choice([1, 1, 2, 3])
        tparams = None
        if loop == "time":
            # time-period based task, optionally with a ramp-up (legal only with warmup-time-period >= ramp-up-time-period):
            # client i starts its first request ramp_up * i / clients seconds after the task started
            mode = rng.choice(["computed", "computed", "computed", "supplied"])
            nclients = rng.choice([2, 2, 3, 4])
            W = Fraction(rng.choice([1, 2, 3, 4]))
            T = Fraction(rng.choice([1, 2, 4]))
            R = rng.choice([None, W, W, W / 2, W * 3 / 4])
            tparams = {"warmup_t": fs(W), "period": fs(T), "ramp_up": None if R is None else fs(R)}
        # throttling: a target throughput / target interval in one of its legal spellings.  Whether the client keeps up with
        # it (sleeps until the scheduled point) or falls behind (does not sleep) depends on the scripted service times
        throttle = None
        if rng.random() < 0.45:
            tt = rng.choice([1, 2, 4, 8, 8, 16, 32])
            spelling = rng.choice(["number", "string", "interval"])
            throttle = {"target-throughput": tt} if spelling == "number" else (
                {"target-throughput": f"{tt} ops/s"} if spelling == "string" else {"target-interval": float(Fraction(1, tt))})
        clients = []
        for c in range(nclients):
            n = rng.choice([1, 2, 3, 5, 8, 12])
            warm = rng.choice([0, 0, 1, 2]) if loop == "iterations" else 0
            if loop == "time":
                n, warm = 40, 0  # more than fit into warm-up + time period; the schedule stops by the clock
            calls = []
            for i in range(n + warm):
                service = Fraction(rng.choice([4, 8, 8, 16, 24] if loop == "time" else [1, 2, 4, 8, 16, 24, 40]), 16)
                if i == 0:
                    service += Fraction(c + 1, 4096)  # keeps the time stamps of different clients distinct
                r = rng.random()
                if mode == "supplied" or (mode == "mixed" and r < 0.5):
                    res = {"k": "dict", "w": rng.choice([None, 0, 1, 100, 5000]), "unit": unit, "tput": gen_tput_value(rng)}
                else:
                    kind = rng.choice(["dict-absent", "dict-absent", "dict-none", "pair", "other"])
                    if kind == "pair":
                        res = {"k": "pair", "w": rng.choice([0, 1, 100, 5000]), "unit": unit or "ops"}
                    elif kind == "other":
                        res = {"k": "other"}
                    else:
                        res = {"k": "dict", "w": rng.choice([None, 0, 1, 100, 5000]), "unit": unit, "tput": "absent" if kind == "dict-absent" else None}
                calls.append({"service": fs(service), "result": res})
            clients.append({"worker": rng.randrange(2), "n": n, "warm": warm, "calls": calls})
        tasks.append({"k": k, "mode": mode, "loop": loop, "tparams": tparams, "throttle": throttle, "clients": clients})
    # a ramp-up wait is ramp_up * i / clients: not a dyadic number in general, the sums of times are then rounded
    # (the same holds for the waiting time 1 / (target throughput / clients) of a throttled task)
    inexact = any((t["tparams"] is not None and t["tparams"]["ramp_up"] is not None) or t["throttle"] is not None for t in tasks)
    base = {"exact": not inexact, "copies": False, "ntasks": ntasks, "downsample": rng.choice([1, 1, 2, 3]),
            "t0": fs(Fraction(rng.randrange(0, 4000), 4)), "epoch": fs(Fraction(1470838595) + Fraction(rng.randrange(0, 64), 8)), "tasks": tasks}
    for placement in ("end-only", "every-shipment", "random"):
        yield dict(base, cut=placement, seed=rng.randrange(1 << 30), faults=gen_faults(rng, 6, p=0.2))


def gen_exec(ctx):
    n = 0
    while n < ctx.budget:
        for case in gen_exec_cases(ctx.rng):
            if n >= ctx.budget:
                break
            n += 1
            yield case


def _result_py(res):
    k = res["k"]
    if k == "pair":
        return (res["w"], res["unit"])
    if k == "other":
        return None
    d = {}
    if res["w"] is not None:
        d["weight"] = res["w"]
    if res["unit"] is not None:
        d["unit"] = res["unit"]
    if res["tput"] == "absent":
        pass
    elif res["tput"] is None:
        d["throughput"] = None
    else:
        d["throughput"] = tput_py(res["tput"])
    return d


def _result_model(res):
    if res["k"] != "dict":
        return res
    t = res["tput"]
    return {"k": "dict", "w": res["w"], "unit": res["unit"], "tput": t if t in ("absent", None) else t["q"]}


def _result_oracle(res):
    """what the documentation of runners says reaches the sample: (ops, unit, supplied throughput or None)"""
    if res["k"] == "pair":
        return res["w"], res["unit"], None
    if res["k"] == "other":
        return 1, "ops", None
    t = res["tput"]
    return (1 if res["w"] is None else res["w"]), ("ops" if res["unit"] is None else res["unit"]), (None if t in ("absent", None) else t["q"])


def run_exec_case(ctx, case):
    import asyncio
    import random as _random
    import threading

    from esrally import track
    from esrally.client import context
    from esrally.driver import driver, runner
    from harness import sim_vloop

    class SimClient(context.RequestContextHolder):
        pass

    clock = sim_vloop.VClock(float(Fraction(case["t0"])), float(Fraction(case["epoch"])))
    script = {(t["k"], ci): cl["calls"] for t in case["tasks"] for ci, cl in enumerate(t["clients"])}
    progress = {}
    ends = {}  # the case's own measurement: performance counter when the response of each runner call arrived
    starts = {}  # the case's own measurement: (performance counter, wall clock) when each runner call was entered
    sched_log = {}  # what the schedule handed out: (expected_scheduled_time, performance counter at that moment)

    class HandleSpy:
        """the real ScheduleHandle, observed: everything is forwarded, the tuples it yields are logged"""

        def __init__(self, handle, log):
            self._handle, self._log = handle, log

        def __call__(self):
            agen = self._handle()
            log = self._log

            async def observed():
                async for item in agen:
                    log.append((item[0], clock.perf_counter()))
                    yield item

            return observed()

        def __getattr__(self, name):
            return getattr(self._handle, name)

    class Source:
        infinite = True

        def __init__(self, k, c=None):
            self.k, self.c, self.i = k, c, 0

        def partition(self, partition_index, total_partitions):
            return Source(self.k, partition_index)

        def params(self):
            i = self.i
            if i >= len(script[(self.k, self.c)]):
                raise StopIteration()
            self.i += 1
            return {"k": self.k, "c": self.c, "i": i}

    class SimRunner:
        completes = False

        async def __aenter__(self):
            return self

        async def __aexit__(self, *a):
            return False

        async def __call__(self, es, params):
            calls = script[(params["k"], params["c"])]
            q = calls[params["i"]]
            progress[(params["k"], params["c"])] = params["i"] + 1
            self._last = (params["k"], params["c"])
            starts.setdefault((params["k"], params["c"]), []).append((clock.perf_counter(), clock.time()))
            service = float(Fraction(q["service"]))
            es.on_request_start()
            if service > 0:
                await asyncio.sleep(service)
            es.on_request_end()
            ends.setdefault((params["k"], params["c"]), []).append(clock.perf_counter())
            return _result_py(q["result"])

        def __repr__(self):
            return "c06-sim-runner"

    class PollingRunner(SimRunner):
        """like wait-for-transform: the runner itself says when it is done"""
        completes = True

        @property
        def completed(self):
            kc = getattr(self, "_last", None)
            return kc is not None and progress.get(kc, 0) >= len(script[kc])

        @property
        def percent_completed(self):
            kc = getattr(self, "_last", None)
            return None if kc is None else progress.get(kc, 0) / len(script[kc])

    samplers = {}
    executors = []
    registered = []
    tasks_by_k = {}
    try:
        for t in case["tasks"]:
            op_type = f"{C06_OP}-{t['k']}"
            polling = t["loop"] == "runner-completes"
            runner.register_runner(op_type, PollingRunner() if polling else SimRunner(), async_runner=True)
            registered.append(op_type)
            ncl = len(t["clients"])
            # iteration counts are per task in Rally; clients with fewer scripted calls stop when their parameter source is exhausted
            tp = t.get("tparams")
            tparams_throttle = dict(t.get("throttle") or {})
            if tp is not None:
                task = track.Task(f"task-{t['k']}", track.Operation(f"op-{t['k']}", op_type, params={}), params=tparams_throttle,
                                  warmup_time_period=float(Fraction(tp["warmup_t"])), time_period=float(Fraction(tp["period"])),
                                  ramp_up_time_period=None if tp["ramp_up"] is None else float(Fraction(tp["ramp_up"])), clients=ncl)
            else:
                task = track.Task(f"task-{t['k']}", track.Operation(f"op-{t['k']}", op_type, params={}), params=tparams_throttle,
                                  warmup_iterations=None if polling else max(cl["warm"] for cl in t["clients"]),
                                  iterations=None if polling else max(cl["n"] for cl in t["clients"]),
                                  clients=ncl)
            tasks_by_k[t["k"]] = task
            for ci, cl in enumerate(t["clients"]):
                w = cl["worker"]
                if w not in samplers:
                    samplers[w] = driver.Sampler(start_timestamp=clock.perf_counter())
                alloc = driver.TaskAllocation(task=task, client_index_in_task=ci, global_client_index=ci, total_clients=ncl)
                handle = HandleSpy(driver.schedule_for(alloc, Source(t["k"])), sched_log.setdefault((t["k"], ci), []))
                executors.append(driver.AsyncExecutor(client_id=len(executors), task=task, schedule=handle, es={"default": SimClient()},
                                                      sampler=samplers[w], cancel=threading.Event(), complete=threading.Event(), on_error="continue"))
                executors[-1]._c06 = (t["k"], ci)

        task_start_perf = clock.perf_counter()  # every client's executor starts on its task now (the ramp-up wait comes after)

        async def main():
            await asyncio.gather(*[ex() for ex in executors])

        _, exc = sim_vloop.run_virtual(clock, main)
        if exc is not None:
            raise HarnessError(f"executor raised {type(exc).__name__}: {exc}")
    finally:
        for op_type in registered:
            runner.remove_runner(op_type)
    kc_of_client = {ex.client_id: ex._c06 for ex in executors}
    # what each worker drains (completion order), tied back to the scripted call: the i-th sample of a client is its i-th call
    seen = {}
    ships = []
    stamp_failures = []
    rng = _random.Random(case["seed"])
    per_worker = []
    for w, sampler in sorted(samplers.items()):
        triples = []
        for o in sampler.samples:
            k, ci = kc_of_client[o.client_id]
            i = seen.get(o.client_id, 0)
            seen[o.client_id] = i + 1
            res = script[(k, ci)][i]["result"]
            # time_period is "time since the task started": taken from the case's own clock readings (arrival of the response,
            # start of the task), not from the sample
            req_end = ends[(k, ci)][i]
            # absolute_time is "the wall clock when the request started": taken from the case's own log of the runner calls, not
            # from the sample (the calculator derives the elapsed time of the task from this field)
            began_perf, began_wall = starts[(k, ci)][i]
            if Fraction(o.absolute_time) != Fraction(began_wall):
                stamp_failures.append((k, ci, i, o.absolute_time, began_wall))
            ms = {"task": k, "abs": fs(began_wall), "rel": fs(o.relative_time), "req_end": fs(req_end), "total_start": fs(task_start_perf),
                  "normal": o.sample_type.name == "Normal", "result": _result_model(res)}
            ops, unit, tp = _result_oracle(res)
            osmp = {"task": k, "abs": ms["abs"], "rel": ms["rel"], "period": fs(Fraction(req_end) - Fraction(task_start_perf)), "normal": ms["normal"],
                    "ops": ops, "unit": unit, "tput": tp}
            triples.append((o, ms, osmp, o.client_id, o.percent_completed))
        chunks = []
        i = 0
        while i < len(triples):
            n = rng.choice([1, 1, 2, 3, 5, 8])
            chunks.append(triples[i:i + n])
            i += n
        per_worker.append(chunks)
    for (k, ci), calls in script.items():
        cid = [c for c, kc in kc_of_client.items() if kc == (k, ci)][0]
        timed = [t for t in case["tasks"] if t["k"] == k][0].get("tparams") is not None
        if (seen.get(cid, 0) > len(calls)) if timed else (seen.get(cid, 0) != len(calls)):
            orc_note = f"client {cid} of task {k}: {len(calls)} runner calls scripted, {seen.get(cid, 0)} samples"
            raise HarnessError("executor did not produce one sample per scripted call: " + orc_note)
    # direct oracle: a sample's absolute_time is the wall clock at which its request really started (throttled or not, on or
    # behind schedule) - the elapsed time of the task, hence every throughput value, is derived from it
    if stamp_failures:
        k, ci, i, got, want = stamp_failures[0]
        thr = [t for t in case["tasks"] if t["k"] == k][0].get("throttle")
        ctx.fail("stamp-not-request-start" + ("-throttled" if thr else ""),
                 f"task {k} client {ci} request {i}: the sample's absolute_time is not the wall clock at the start of the request "
                 f"({len(stamp_failures)} samples; the elapsed time of the task is derived from this field)", fs(want), fs(got))
    # the throttling wait against the model: when each request started, given what the schedule handed out and when
    for (k, ci), log in sorted(sched_log.items()):
        began = [b[0] for b in starts.get((k, ci), [])]
        tm = ctx.model("throughput", "throttle", {"total_start": fs(task_start_perf),
                                                  "reqs": [{"expected": fs(e), "free": fs(f)} for e, f in log[: len(began)]]})
        if "r" not in tm:
            raise HarnessError(f"model rejected the throttle case: {tm}")
        for tag in tm.get("tags", []):
            ctx.count("throttle:" + tag)
        want = [Fraction(x) for x in tm["r"]]
        # rounding of the float additions + the loop's clock resolution (1 ns)
        if len(began) != len(log) or any(abs(Fraction(b) - w) > Fraction(4, 10 ** 9) for b, w in zip(began, want)):
            ctx.diff(f"task {k} client {ci}: start of each request (performance counter) given the schedule's expected times",
                     [str(float(w)) for w in want], [str(b) for b in began])
    while any(per_worker):
        w = rng.choice([i for i, ch in enumerate(per_worker) if ch])
        ships.append(per_worker[w].pop(0))
    events = []
    p = rng.choice([0.1, 0.3, 0.6])
    for sh in ships:
        events.append(sh)
        if case["cut"] == "every-shipment" or (case["cut"] == "random" and rng.random() < p):
            events.append("pp")
    events.append("pp")
    vals = sorted({(t["mode"], t["loop"], t.get("throttle") is not None) for t in case["tasks"]})
    zero = any(c["result"].get("tput") not in ("absent", None) and c["result"]["k"] == "dict" and Fraction(c["result"]["tput"]["q"]) == 0
               for t in case["tasks"] for cl in t["clients"] for c in cl["calls"])
    ctx.count("class:supplied-zero" if zero else "class:no-supplied-zero")
    case = dict(case, sig_extra=[vals, zero])
    _drive(ctx, case, events)


# ---------------------------------------------------------------------------------------------
# the transport between executor and calculator: Sampler -> Worker (wake-ups, join points) -> UpdateSamples -> Driver
# ---------------------------------------------------------------------------------------------
# (1) whole simulated races on the lead's actor simulator (harness/sim_race.py, scenarios of harness/c01.py, projection of the
#     trace to pipeline events of harness/c07.py - all used read-only).  The expectation does NOT come from what the workers
#     shipped: at every UpdateSamples a worker sends, the shipment is *taken to be* everything its samplers accepted since its
#     previous shipment (the samples as they were offered to Sampler.add), whatever the message really contains; deliveries
#     fill the driver's buffer, post-processing runs cut it into batches.  These ideal batches go to the Lean model (`pp_run`)
#     and to the direct oracle; what the race's post-processor stored as throughput is compared with both, and at the end of
#     the race every accepted sample must have been in a batch and every throughput record must be at race control.
def gen_races(ctx):
    from harness import c01

    rng = ctx.rng
    for _ in range(ctx.budget):
        sc = c01.gen_scenario(rng)
        if rng.random() < 0.25:
            # a long element so that the driver's periodic post-processing (every 30 wake-ups of 1 s) fires mid-task
            sc["schedule"].append({"leaf": {"name": "long", "clients": rng.choice([1, 2, 3]), "iterations": rng.choice([18, 24, 40])}})
            sc["svc"]["long"] = rng.choice([0.25, 2.0])
        yield {"scenario": sc, "seed": rng.randrange(1 << 30)}


def run_race(ctx, case):
    import collections

    from harness import c01, c07

    sc = case["scenario"]
    sim, res = c01.run_sim(case)
    tidx, _elem, spec = c01.task_index(sc)
    evs = c07.pipeline_events(sim)
    info = sim.sample_info

    def msample(sid):
        i = info[sid]
        return {"task": tidx[i["task"]], "abs": fs(i["abs"]), "rel": fs(i["rel"]), "period": fs(i["period"]), "ops": int(i["ops"]), "unit": i["unit"],
                "normal": bool(i["normal"]), "tput": None if i["tput"] is None else fs(i["tput"])}

    queued = collections.defaultdict(list)       # accepted by a worker's samplers, not yet (ideally) shipped
    inflight = collections.defaultdict(collections.deque)
    buf = []
    orc = Oracle(ctx, {"exact": False})
    model_events, impl_runs = [], []
    ci = 0
    accepted = 0
    task_switch_without_join = False
    for e in evs:
        if e["e"] == "request":
            if e["obs"]["accepted"] and e["sid"] in info:
                queued[e["w"]].append(e["sid"])
                accepted += 1
        elif e["e"] == "ship":
            inflight[e["w"]].append(queued[e["w"]])
            queued[e["w"]] = []
        elif e["e"] == "deliverU":
            if not inflight[e["w"]]:
                orc.fail("transport:delivery-without-shipment", "an UpdateSamples message arrived that no worker sent", None, e["w"])
                continue
            content = [msample(sid) for sid in inflight[e["w"]].popleft()]
            model_events.append(content)
            buf += content
        elif e["e"] == "postprocess":
            model_events.append("pp")
            recs = []
            try:
                for tname, vals in (e.get("tput") or []):
                    for a, r, nrm, v, u in vals:
                        recs.append([tidx[tname], [fs(a), fs(r), bool(nrm), canon_value(v), u]])
            except Exception as ex:  # what the implementation produced cannot be read: a difference, not a harness error
                ctx.diff("unreadable throughput values", None, repr(ex))
            impl_runs.append(recs)
            groups = []
            for smp in buf:
                if smp["task"] not in groups:
                    groups.append(smp["task"])
            stray = [r for r in recs if r[0] not in groups]
            if stray:
                orc.fail("task-keys", f"run {ci}: throughput values for tasks without samples in the batch", groups, stray[:3])
            if buf:
                orc.step(ci, buf, [[k, [r[1] for r in recs if r[0] == k]] for k in groups])
            buf = []
            ci += 1
            if orc.stale_run() >= STALE_CAP:
                break
    finished = res == "until"
    if finished:
        left = {"never shipped": sum(len(v) for v in queued.values()), "shipments never delivered": sum(len(c) for q in inflight.values() for c in q),
                "delivered but never post-processed": len(buf)}
        if any(left.values()):
            lost = [sid for v in queued.values() for sid in v][:5]
            orc.fail("transport:operations-never-reported", "the race is complete but samples that the samplers accepted never reached a post-processing batch "
                     "(their operations are in no throughput value)", 0, {**left, "examples": [info[sid]["task"] for sid in lost]})
        # the end of the pipeline: the throughput records at race control are the values the post-processor computed
        want = sorted((tk, v[3], v[4], "normal" if v[2] else "warmup") for recs in impl_runs for tk, v in recs)
        try:
            got = sorted((tidx[d["task"]], canon_value(d["value"]), d["unit"], d["sample-type"]) for d in sim.rc_docs if d.get("name") == "throughput")
        except Exception as ex:
            got = repr(ex)
        if got != want:
            orc.fail("transport:throughput-records-at-race-control", "the throughput records race control holds are not the values computed during the race",
                     len(want), len(got) if isinstance(got, list) else got)
    if model_events:
        m = ctx.model("throughput", "pp_run", {"events": model_events})
        if "r" not in m:
            raise HarnessError(f"model rejected the case: {m}")
        tags = sorted(m.get("tags", []))
        if m["r"]["runs"] != impl_runs:
            for i, (a, b) in enumerate(zip(m["r"]["runs"], impl_runs)):
                if a != b:
                    ctx.diff(f"post-processing run {i} of the race", a[:6], b[:6])
                    break
            else:
                ctx.diff("number of runs", len(m["r"]["runs"]), len(impl_runs))
    else:
        tags = []
    # branches the property's quantifier names: how often are they reached
    over = any("par" in el and el.get("clients") is not None and el["clients"] < sum(t["clients"] for t in el["par"]) for el in sc["schedule"])
    timed = any(t.get("time_period") for t in spec.values())
    ramp = any(t.get("ramp_up_time_period") for t in spec.values())
    ctx.count("races")
    ctx.count("result:" + str(res))
    ctx.count("samples", accepted)
    ctx.count("runs", ci)
    ctx.count("outcome:" + orc.outcome)
    for name, flag in (("over-committed-parallel", over), ("time-based-task", timed), ("ramp-up", ramp), ("pickled-messages", sc.get("pickle_messages")),
                       ("periodic-post-processing-mid-task", any(t == "long" for t in spec))):
        if flag:
            ctx.count("branch:" + name)
    ctx.sig([tags, orc.outcome, over, timed, ramp, str(res), min(ci, 6)], nontrivial=accepted > 3)


# (2) the same transport driven directly so that sizes beyond every constant in sight are reachable (queue capacity 2^20 as the
#     Worker configures it, 16384 = Sampler's default, 10^k): real Sampler.add, real Worker.send_samples on an instance of the
#     real Worker class, real UpdateSamples messages, real Driver.update_samples / post_process_samples, real post-processor and
#     store.  Throughput is the observable: every record must be float(ops of the samples that reached a batch up to the
#     emitting one) / elapsed, and after the final flush of the pipeline a far-future sample's record must count EVERY
#     operation that was executed, whatever the shipping / batching history.
DIRECT_T0 = Fraction(3999, 4)  # every sample has absolute_time - time_period = 999.75: the task start


def direct_ops(sid):
    return 1 + (sid * 7919) % 5


def gen_transport_direct(ctx):
    import math

    rng = ctx.rng
    for _ in range(ctx.budget):
        r = rng.random()
        if r < 0.2:
            n = int(2 ** rng.uniform(14, 17.2))      # around and beyond 16384, 32768, 10^5
        elif r < 0.3:
            n = rng.choice([16383, 16384, 16385, 32768, 32769, 9999, 10000, 10001, 65537])
        else:
            n = int(2 ** rng.uniform(0, 12))
        workers = rng.choice([1, 1, 2, 3])
        script, left = [], n
        while left > 0:
            b = min(left, max(1, int(2 ** rng.uniform(0, math.log2(left + 1)))))
            script.append(["requests", rng.randrange(workers), b])
            left -= b
            r = rng.random()
            if r < 0.45:
                w = rng.randrange(workers)
                script.append(["ship", w])
                if rng.random() < 0.7:
                    script.append(["deliver", w])
            elif r < 0.55:
                script.append(["deliver", rng.randrange(workers)])
            if r < 0.25:
                script.append(["postprocess"])
        yield {"n": n, "workers": workers, "script": script, "warmup": rng.choice([0, 0, n // 3, n]), "downsample": rng.choice([1, 1, 2, 3]),
               "queue": rng.choice(["worker-default", "worker-default", "sampler-default"])}


def run_transport_direct(ctx, case):
    import bisect
    import collections
    import logging
    import math

    from esrally import metrics, track
    from esrally.driver import driver

    real = lambda f: getattr(f, "__wrapped__", f)  # the simulator's observation wrappers may be installed in this process
    sampler_add = real(driver.Sampler.add)
    post_process = real(driver.Driver.post_process_samples)
    d, store, ds_opt = _new_driver(case)
    spy = []
    orig = store.put_value_cluster_level

    def put_value_cluster_level(*a, **kw):
        if kw.get("name") == "throughput":
            spy.append(kw)
        return orig(*a, **kw)

    store.put_value_cluster_level = put_value_cluster_level
    W = case["workers"]
    task = track.Task("task-0", track.Operation("op-0", "c06-direct"), clients=W)
    sent = []
    workers = []
    for w in range(W):
        ws = object.__new__(driver.Worker)  # the REAL class: helpers a refactoring adds are there
        q = driver.Sampler(start_timestamp=0.0, buffer_size=1 << 20) if case["queue"] == "worker-default" else driver.Sampler(start_timestamp=0.0)
        ws.__dict__.update(sampler=q, worker_id=w, driver_actor="driver", send=lambda dst, m: sent.append(m), logger=logging.getLogger("esrally.driver.driver"))
        workers.append(ws)
    calc = d.sample_post_processor.throughput_calculator
    if hasattr(calc.calculate, "__wrapped__") or hasattr(type(calc).calculate, "__wrapped__"):
        import types as _t

        calc.calculate = _t.MethodType(real(driver.ThroughputCalculator.calculate), calc)
    small = case["n"] <= 1500
    warm = case["warmup"]
    sid = 0
    queued = collections.defaultdict(list)     # ideal transport: accepted, not yet shipped
    inflight = collections.defaultdict(collections.deque)
    pending_msgs = collections.defaultdict(collections.deque)
    buf = []                                   # ideal driver buffer (sids)
    counted_ops, uncounted = 0, []             # reference counting: ops in a value so far; sids fed but in no value yet (ascending)
    accepted_ops = 0
    model_events, impl_runs = [], []
    outcome = ["ok"]
    seen_normal = [False]
    any_normal_value = [False]

    def fail(cls, what, exp, obs):
        outcome[0] = cls
        ctx.fail(cls, what, exp, obs)

    def sample_fields(s):
        t = Fraction(s, 1024)
        return 1000 + t, t, t + Fraction(1, 4), direct_ops(s), s > warm

    def msample(s):
        a, rel, period, ops, normal = sample_fields(s)
        return {"task": 0, "abs": fs(a), "rel": fs(rel), "period": fs(period), "ops": ops, "unit": "docs", "normal": normal, "tput": None}

    def add(w, s, flush=False):
        a, rel, period, ops, normal = sample_fields(s)
        if flush:
            a, period, ops, normal = a + 100000, period + 100000, 1, True
        before = _qlen(workers[w].sampler.q)
        sampler_add(workers[w].sampler, task, w, metrics.SampleType.Normal if normal else metrics.SampleType.Warmup, {}, float(a), float(rel), 0.5, 0.25, 0.125,
                    None, ops, "docs", float(period), None)
        return _qlen(workers[w].sampler.q) > before

    def do(step):
        nonlocal sid, counted_ops, uncounted, buf, accepted_ops
        if step[0] == "requests":
            _, w, b = step
            for _ in range(b):
                sid += 1
                if add(w, sid):
                    queued[w].append(sid)
                    accepted_ops += direct_ops(sid)
        elif step[0] == "ship":
            w = step[1]
            n0 = len(sent)
            driver.Worker.send_samples(workers[w])
            # ideal: a shipment carries everything accepted since the previous one, whatever the message contains
            if queued[w] or len(sent) > n0:
                inflight[w].append(queued[w])
                queued[w] = []
                pending_msgs[w].append(sent[n0:])
        elif step[0] == "deliver":
            w = step[1]
            if inflight[w]:
                content = inflight[w].popleft()
                for m in pending_msgs[w].popleft():
                    driver.Driver.update_samples(d, m.samples)
                buf += content
                if small:
                    model_events.append([msample(s) for s in content])
        elif step[0] == "postprocess":
            n0 = len(spy)
            post_process(d)
            recs = spy[n0:]
            if small:
                model_events.append("pp")
                impl_runs.append([[0, [fs(kw["absolute_time"]), fs(kw["relative_time"]), kw["sample_type"] == metrics.SampleType.Normal, canon_value(kw["value"]), kw["unit"]]]
                                  for kw in recs])
            merged = sorted(set(uncounted) | set(buf)) if buf else uncounted
            if len(merged) != len(uncounted) + len(buf):
                raise HarnessError("direct transport: a sample id twice in the reference")
            buf = []
            pos = 0
            for kw in recs:
                rel = Fraction(kw["relative_time"])
                a = Fraction(kw["absolute_time"])
                es = rel * 1024
                j = bisect.bisect_left(merged, es, pos) if es.denominator == 1 else len(merged)
                if j >= len(merged) or merged[j] != es:
                    fail("unknown-emitter", f"a throughput value is attributed to no sample of the batch (n={case['n']})", None, [fs(a), fs(rel)])
                    break
                n_ops = counted_ops + sum(direct_ops(s) for s in merged[pos: j + 1])
                counted_ops = n_ops
                pos = j + 1
                flushrec = a > 50000
                want = Fraction(n_ops + (1 - direct_ops(int(es)) if flushrec else 0)) / (a - DIRECT_T0)
                if kw["unit"] != "docs/s":
                    fail("unit", "unit is not '<ops unit>/s'", "docs/s", kw["unit"])
                if kw["value"] is None or Fraction(kw["value"]) != Fraction(float(want)):
                    fail("rate-mismatch", f"a throughput value is not (operations of the samples that reached a batch up to the emitting one, each once) / elapsed "
                         f"(n={case['n']}, workers={W})", {"ops": str(want * (a - DIRECT_T0)), "value": fs(Fraction(float(want)))}, {"value": canon_value(kw["value"])})
                    break
                if kw["sample_type"] == metrics.SampleType.Normal:
                    any_normal_value[0] = True
            uncounted = merged[pos:]

    for step in case["script"]:
        do(step)
    # the end of the task: every worker ships once (as at a join point), everything is delivered and post-processed, then one
    # far-future sample goes the same way: its record counts every operation that was executed
    def drain():
        for w in range(W):
            do(["ship", w])
        for w in range(W):
            while inflight[w]:
                do(["deliver", w])
        do(["postprocess"])

    drain()
    left_in_queues = sum(_qlen(ws.sampler.q) for ws in workers)
    sid += 1
    flush_sid = sid
    n0 = len(spy)
    if add(0, flush_sid, flush=True):
        queued[0].append(flush_sid)
    drain()
    last = spy[-1] if len(spy) > n0 else None
    a_flush = 1000 + Fraction(flush_sid, 1024) + 100000
    want = Fraction(accepted_ops + 1) / (a_flush - DIRECT_T0)
    if last is None or last["value"] is None or Fraction(last["value"]) != Fraction(float(want)):
        fail("transport:operations-not-counted", f"after every worker has shipped and the driver has post-processed everything, the last throughput value of the task does not "
             f"count every executed operation (n={case['n']}, workers={W}, still queued at the workers: {left_in_queues})",
             {"ops": accepted_ops + 1, "value": fs(Fraction(float(want)))}, {"value": None if last is None else canon_value(last["value"])})
    if small:
        m = ctx.model("throughput", "pp_run", {"events": model_events})
        if "r" not in m:
            raise HarnessError(f"model rejected the case: {m}")
        # the flush sample of the reference has other fields than sample_fields: compare the runs before it
        k = len(impl_runs) - 1
        if m["r"]["runs"][:k] != impl_runs[:k]:
            ctx.diff("post-processing runs (direct transport)", [r[:4] for r in m["r"]["runs"][:k]][:4], [r[:4] for r in impl_runs[:k]][:4])
    ctx.count("direct-samples", case["n"])
    ctx.count("outcome:" + outcome[0])
    for bound in (16384, 32768, 100000):
        if case["n"] > bound:
            ctx.count(f"size>{bound}")
    ctx.sig(["direct", int(math.log2(case["n"])) // 2, W, case["queue"], case["downsample"], (warm > 0) + (warm >= case["n"]), outcome[0]], nontrivial=case["n"] > 3)


def gen_sort(ctx):
    rng = ctx.rng
    for _ in range(ctx.budget):
        n = rng.randrange(0, 12)
        yield {"abs": [fs(Fraction(rng.randrange(0, 6), rng.choice([1, 2, 4]))) for _ in range(n)]}


def run_sort(ctx, case):
    m = ctx.model("throughput", "sort", case)
    idx = sorted(range(len(case["abs"])), key=lambda i: float(Fraction(case["abs"][i])))
    if m["r"] != idx:
        ctx.diff("stable sort by absolute time", m["r"], idx)
    ctx.sig(["sort", len(set(case["abs"])) < len(case["abs"])], nontrivial=len(case["abs"]) > 1)


STREAMS = [
    Stream("boundary", gen_boundary, run_case, quick=600, thorough=6000, shards=2),
    Stream("dyadic", gen_dyadic, run_case, quick=15000, thorough=300000, shards=16),
    Stream("floats", gen_floats, run_case, quick=4000, thorough=80000, shards=8),
    Stream("passthrough", gen_pass, run_case, quick=2000, thorough=40000, shards=4),
    Stream("mixed_malformed", gen_mixed, run_case, quick=1000, thorough=20000, shards=2),
    Stream("stable_sort", gen_sort, run_sort, quick=500, thorough=20000, shards=1),
    Stream("driver_boundary", gen_driver_boundary, run_driver_case, quick=1200, thorough=12000, shards=4),
    Stream("driver_dyadic", gen_driver_dyadic, run_driver_case, quick=6000, thorough=120000, shards=16),
    Stream("driver_floats", gen_driver_floats, run_driver_case, quick=1500, thorough=30000, shards=8),
    Stream("executor_to_store", gen_exec, run_exec_case, quick=2400, thorough=40000, shards=16),
    Stream("races_to_store", gen_races, run_race, quick=640, thorough=60000, shards=16),
    Stream("transport_direct_sizes", gen_transport_direct, run_transport_direct, quick=160, thorough=8000, shards=16),
]
