"""C03 — bulk indexing ingests every corpus document exactly once across clients.

Streams (every stream: Lean model `RallyModel/Bulk.lean` vs. the real code, then the direct oracle on
the real output only):

  arith     params.bounds / params.number_of_bulks / total_bulks as pure functions on totals up to 2^50
            (random, around rounding ties, 10^12 neighbourhood); oracle: the (offset, docs) pairs of a
            random cutting of the clients tile [0, total).
  files     real files in a temp dir, real BulkIndexParamSource driven like AsyncIoAdapter.run (one
            source per worker, partition() per co-located client, random interleaving of params() calls
            until every client has seen StopIteration), real io.prepare_file_offset_table / MmapSource;
            random draws recorded through the public constructor arguments of GenerateActionMetaData /
            build_conflicting_ids.  Oracle: multiset of (action, document) pairs over all bulks of all
            workers = multiset of corpus documents; no bulk over size; pairing; per-worker stop count;
            conflict ids ⊆ ids emitted earlier by the same worker.
  spec      a track specification (the dict json.load gives) -> real TrackSpecificationReader -> set_absolute_data_path ->
            operation_parameters of the loaded bulk task -> the `files` treatment.  Corpus-level defaults x document-level
            settings (absent / true / false) of includes-action-and-meta-data, targets on both levels, 0-3 indices or 0-2
            data streams, rejected specifications.  The files are written the way their most specific declaration says;
            model op `spec` (resolveCorpora) says what the document sets are loaded as and feeds the worker model.
  reader    params.Slice(io.MmapSource, offset, count) + the three readers on real files for arbitrary
            offset / count / bulk / batch (count beyond the file, odd counts …).
  gen       GenerateActionMetaData with explicit draw functions (probability / recency / update).
  offsets   io.prepare_file_offset_table + io.skip_lines + MmapSource on files with ≥ 50 000 lines
            (and small ones), with and without the `.offset` file.
  malformed configurations the real code rejects (conflicts on a data stream, changing total partitions).
"""
import json
import math
import os
import shutil
import tempfile
from fractions import Fraction

from harness.framework import Stream, HarnessError

PROPERTY = "C03"
RULE = ("corpora of 1-3 corpora x 1-3 files (0-120 documents; one family with 50 001+ lines so that offset tables are used; with/without "
        "action-and-meta-data lines; ASCII, multi-byte UTF-8, duplicate lines, missing final newline) x client counts x contiguous splits "
        "of clients into workers x bulk/batch sizes x ingest percentages x conflict modes x random interleavings of params() calls; "
        "a case is non-trivial when at least one bulk is emitted; signature = (model branch tags, reader kinds, split shape, outcome)")
TRUSTED = [
    "IEEE-754 model RallyModel/Dbl.lean (validated bit-for-bit against CPython by the dbl stream)",
    "mmap.readline / text-mode readline+tell of CPython on files without '\\r' (exercised on real files, modelled at byte level)",
    "the random module is replaced by a recording oracle through the public constructor parameters rand/randint/randexp/shuffle",
    "co-located clients ask for contiguous client indices (C02) and only call params() from one thread (asyncio)",
]
ASSUMPTIONS = [
    "data files contain no '\\r' and are valid UTF-8; number_of_documents matches the file (checked by C14's create_file_offset_table)",
    "total documents per file <= 2^50 (the property asks for 10^12 < 2^40); bulk-size >= 1; batch-size a multiple of bulk-size",
    "random.randint(0, hi) <= hi, random.expovariate(..) >= 0, random.shuffle permutes",
]

BASE = 10_000_000  # line id = file index * BASE + line number (driver convention)


def fs(x):
    f = Fraction(x)
    return f"{f.numerator}/{f.denominator}"


# ---------------------------------------------------------------------------------------------
# file contents (deterministic from the case description)
# ---------------------------------------------------------------------------------------------
WORDS = ["a", "é", "日本語", "😀", "ß", "x y", "\\u00e9", "Ωmega", "tab\\t", "q"]


def make_lines(fidx, style, ndocs, meta, last_newline, seed):
    """the lines (bytes, with terminator) of data file `fidx`"""
    import random

    rng = random.Random(seed * 1000003 + fidx)
    lines = []
    for i in range(ndocs):
        if style == "tiny":
            doc = b"{}"
        elif style == "dup":
            doc = b'{"d":%d}' % (i % 3)
        elif style == "utf8":
            w = " ".join(rng.choice(WORDS) for _ in range(rng.randrange(1, 5)))
            doc = ('{"f":%d,"n":%d,"w":"%s"}' % (fidx, i, w)).encode("utf-8")
        elif style == "padded":
            doc = b"  \t" + (b'{"f":%d,"n":%d}' % (fidx, i)) + b" \t "
        elif style == "crlf":
            # a file written on Windows: every line ends in "\r\n" (one line for the text-mode reader AND for mmap.readline)
            doc = b'{"f":%d,"n":%d,"p":"%s"}\r' % (fidx, i, b"y" * rng.randrange(0, 6))
        elif style in ("cr", "ctl"):
            # a LINE ends at "\n" and only there. "cr": legal JSON (RFC 8259: %x0D is insignificant white space; U+0085, U+2028,
            # U+2029 may stand unescaped in a string), some lines end in "\r\n". "ctl": additionally the other characters at which
            # str.splitlines() cuts (\x0b \x0c \x1c \x1d \x1e) inside the string value (not strict JSON; line content all the same).
            seps = [b",", b", ", b",\r ", b",\r", b"\r,\r\r", b" ,\t\r"]
            specials = ["\u0085", "\u2028", "\u2029", "\u0085\u2028", "é", ""]
            if style == "ctl":
                specials += ["\x0b", "\x0c", "\x1c", "\x1d", "\x1e", "\x0b\x0c\x1c\x1d\x1e\u0085"]
            w = "".join(rng.choice(specials) + rng.choice(WORDS[:5]) for _ in range(rng.randrange(0, 3)))
            parts = [b'"f":%d' % fidx, b'"n":%d' % i, ('"w":"%s"' % w).encode("utf-8")]
            doc = rng.choice([b"{", b"{\r", b"\r{", b"{ "]) + rng.choice(seps).join(parts) + rng.choice([b"}", b"\r}", b"}\r", b"} \r\r", b"}"])
            if rng.random() < 0.25 and not doc.endswith(b"\r"):
                doc += b"\r"  # CRLF line end
        else:
            doc = b'{"f":%d,"n":%d,"p":"%s"}' % (fidx, i, b"x" * rng.randrange(0, 12))
        if meta:
            lines.append(b'{"index": {"_id": "%d-%d"}}\n' % (fidx, i))
        lines.append(doc + b"\n")
    if lines and not last_newline:
        lines[-1] = lines[-1][:-1]
        if lines[-1] == b"":
            lines[-1] = b"{}"
    return lines


def split_body(body):
    """lines of a bulk body, terminators kept"""
    if not isinstance(body, (bytes, bytearray)):
        raise HarnessError(f"bulk body is {type(body).__name__}, expected bytes")
    parts = body.split(b"\n")
    out = [p + b"\n" for p in parts[:-1]]
    if parts[-1] != b"":
        out.append(parts[-1])
    return out


# ---------------------------------------------------------------------------------------------
# recording oracle for the random module
# ---------------------------------------------------------------------------------------------
class Rec:
    def __init__(self, rng, prob_float):
        self.rng = rng
        self.prob = prob_float
        self.rand, self.randint, self.randexp, self.shuffle = [], [], [], []
        self.bad = []

    def f_rand(self):
        r = self.rng.random()
        if r < 0.1 and self.prob is not None:
            v = self.prob / 100.0  # exactly the threshold (<= is inclusive)
        elif r < 0.15:
            v = 0.0
        elif r < 0.5:
            v = self.rng.random() * 0.3
        else:
            v = self.rng.random()
        self.rand.append(fs(v))
        return v

    def f_randint(self, lo, hi):
        if lo != 0:
            self.bad.append(f"randint lower bound {lo}")
        v = self.rng.choice([lo, hi, self.rng.randint(lo, hi)])
        self.randint.append(v)
        return v

    def f_randexp(self, lam):
        r = self.rng.random()
        if r < 0.15:
            v = 0.0
        elif r < 0.3:
            v = 1.0 + self.rng.random() * 3
        elif r < 0.4:
            v = 1.0
        else:
            v = self.rng.expovariate(lam) if lam > 0 else 0.5
        self.randexp.append(fs(v))
        return v

    def f_shuffle(self, l):
        self.rng.shuffle(l)
        self.shuffle.append([int(x) for x in l])

    def as_json(self):
        return {"rand": self.rand, "randint": self.randint, "randexp": self.randexp, "shuffle": self.shuffle}


class patched_random:
    """route the random draws of create_default_reader through `rec` (public names only)"""

    def __init__(self, rec):
        self.rec = rec

    def __enter__(self):
        from esrally.track import params

        rec = self.rec
        self.params = params
        self.orig_cls = params.GenerateActionMetaData
        self.orig_ids = params.build_conflicting_ids
        orig_cls, orig_ids = self.orig_cls, self.orig_ids

        class Patched(orig_cls):
            def __init__(self, *a, **kw):
                kw.setdefault("rand", rec.f_rand)
                kw.setdefault("randint", rec.f_randint)
                kw.setdefault("randexp", rec.f_randexp)
                super().__init__(*a, **kw)

        def ids(conflicts, docs_to_index, offset, shuffle=None):
            return orig_ids(conflicts, docs_to_index, offset, shuffle=rec.f_shuffle)

        params.GenerateActionMetaData = Patched
        params.build_conflicting_ids = ids
        return self

    def __exit__(self, *a):
        self.params.GenerateActionMetaData = self.orig_cls
        self.params.build_conflicting_ids = self.orig_ids
        return False


# ---------------------------------------------------------------------------------------------
# expansion of model items to what the body must contain
# ---------------------------------------------------------------------------------------------
def check_items(ctx, what, items, body_lines, files, targets):
    """compare the model's item list with the real body lines. files: fidx -> list of lines;
    targets: fidx -> (name, type, is_data_stream).  Returns None or a description of the difference."""
    if len(items) != len(body_lines):
        return f"{what}: model has {len(items)} lines, body has {len(body_lines)}"
    fidx = None
    for it in items:
        if isinstance(it, int):
            fidx = it // BASE
            break
        if isinstance(it, list) and it[0] == "u":
            fidx = it[1] // BASE
            break
    for k, (it, line) in enumerate(zip(items, body_lines)):
        if isinstance(it, int):
            exp = files[it // BASE][it % BASE]
            if exp != line:
                return f"{what}: line {k}: expected file line {it % BASE} of file {it // BASE} {exp!r}, got {line!r}"
        elif it[0] == "u":
            src = files[it[1] // BASE][it[1] % BASE]
            try:
                got = json.loads(line)
            except ValueError:
                return f"{what}: line {k}: update document is not JSON: {line!r}"
            if not line.endswith(b"\n") or b"\n" in line[:-1] or got != {"doc": json.loads(src)}:
                return f"{what}: line {k}: expected an update wrapper of {src!r}, got {line!r}"
        else:
            _, act, idv = it
            name, typ, _ = targets[fidx]
            meta = {"_index": name}
            if typ:
                meta["_type"] = typ
            if idv is not None:
                meta["_id"] = "%010d" % idv
            try:
                got = json.loads(line)
            except ValueError:
                return f"{what}: line {k}: action line is not JSON: {line!r}"
            if got != {act: meta} or not line.endswith(b"\n"):
                return f"{what}: line {k}: expected action {json.dumps({act: meta})}, got {line!r}"
    return None


# ---------------------------------------------------------------------------------------------
# stream: arith
# ---------------------------------------------------------------------------------------------
def gen_arith(ctx):
    rng = ctx.rng
    for _ in range(ctx.budget):
        n = rng.choice([1, 2, 3, 4, 5, 7, 8, 16, 24, 48, 64, 100, 1000, rng.randrange(1, 5000), rng.randrange(1, 2**20)])
        mode = rng.randrange(7)
        if mode == 0:
            total = rng.randrange(0, 300)
        elif mode == 1:
            total = rng.randrange(0, 2**50 + 1)
        elif mode == 2:
            total = 10**12 + rng.randrange(-2000, 2000)
        elif mode == 3:  # total/n*k on or next to .5 for many k
            q = rng.randrange(0, 2 ** rng.randrange(1, 49))
            total = min(2**50, n * q + n // 2 + rng.choice([-1, 0, 0, 1]))
            total = max(total, 0)
        elif mode == 4:  # multiples and near-multiples of n
            total = min(2**50, n * rng.randrange(0, 2 ** rng.randrange(1, 40)) + rng.choice([0, 0, 1, n - 1]))
        elif mode == 5:
            total = 2**50 - rng.randrange(0, 1000)
        else:
            total = 2 ** rng.randrange(0, 51) + rng.choice([-1, 0, 1])
            total = max(total, 0)
        # a cutting of 0..n-1 into consecutive ranges
        if n <= 64 and rng.random() < 0.3:
            ends = list(range(n))
        else:
            k = rng.randrange(1, min(n, 8) + 1)
            ends = sorted(set(rng.sample(range(n), k - 1) + [n - 1])) if n > 1 else [0]
        bulk = rng.choice([1, 2, 3, 7, 100, 500, 1000, 5000, 10000, rng.randrange(1, 100000)])
        if rng.random() < 0.6:  # few enough bulks that total_bulks can be observed by counting params() calls
            bulk = max(1, (total + rng.randrange(0, 10**6)) // rng.randrange(1, 250))
        pct = rng.choice([100.0, 100.0, 50.0, 10.0, 2.5, 0.1, 33.3, 99.9, 12.5, 1e-3, 7.000000000000001, rng.random() * 100 or 1.0,
                          float(rng.randrange(1, 101))])
        if rng.random() < 0.25:  # integral percentage and a number of bulks that makes all*p/100 an integer (or nearly)
            pi = rng.choice([7, 14, 28, 55, 56, 68, 3, 29, 57, 58, 1, 99, rng.randrange(1, 100)])
            g = math.gcd(pi, 100)
            nbw = (100 // g) * rng.randrange(1, max(2, 280 // (pi // g) + 1)) + rng.choice([0, 0, 0, 1])
            n, bulk = rng.choice([1, 2, 5]), rng.choice([1, 3, 10])
            total = nbw * bulk
            ends = [n - 1]
            pct = float(pi)
            yield {"total": total, "n": n, "ends": ends, "meta": rng.random() < 0.4, "bulk": bulk, "pct": fs(pct),
                   "total2": 0, "meta2": False}
            continue
        if rng.random() < 0.3:  # all*p/100 on or next to an integer: the two float roundings may cross it
            nb = rng.randrange(1, 400)
            pct = 100.0 * rng.randrange(1, nb + 1) / nb
            pct = rng.choice([pct, math.nextafter(pct, 200.0), math.nextafter(pct, 0.0)])
            pct = min(pct, 100.0)
        yield {"total": total, "n": n, "ends": ends, "meta": rng.random() < 0.4, "bulk": bulk, "pct": fs(pct),
               "total2": rng.randrange(0, 10**6), "meta2": rng.random() < 0.5}


def run_arith(ctx, case):
    from esrally.track import params, track

    total, n, meta = case["total"], case["n"], case["meta"]
    lpd = 2 if meta else 1
    start = 0
    tiles = []
    for e in case["ends"]:
        m = ctx.model("bulk", "bounds", {"total": total, "s": start, "e": e, "n": n, "meta": meta})
        i = list(params.bounds(total, start, e, n, meta))
        if m.get("r") != i:
            ctx.diff("bounds", m, i)
        tiles.append(i)
        start = e + 1
    # direct oracle: consecutive, disjoint, covering
    pos = 0
    ok = True
    for off, docs, lines in tiles:
        if off != pos * lpd or docs < 0 or lines != docs * lpd:
            ok = False
        pos += docs
    if pos != total:
        ok = False
    if not ok:
        ctx.fail("bounds-do-not-tile", "the (offset, docs, lines) triples of consecutive client ranges do not tile [0,total)",
                 {"total": total}, tiles)
    # number_of_bulks / total_bulks for one worker range
    s = 0 if len(case["ends"]) == 1 else case["ends"][0] + 1
    e = case["ends"][min(1, len(case["ends"]) - 1)]
    if s > e:
        s = 0
    docsets = [{"docs": total, "meta": meta}, {"docs": case["total2"], "meta": case["meta2"]}]
    pct = float(Fraction(case["pct"]))
    m = ctx.model("bulk", "number_of_bulks", {"s": s, "e": e, "n": n, "bulk": case["bulk"], "pct": case["pct"], "docsets": docsets})
    corpora = [track.DocumentCorpus("c", documents=[
        track.Documents(source_format="bulk", number_of_documents=d["docs"], includes_action_and_meta_data=d["meta"], target_index="i")
        for d in docsets])]
    nb = params.number_of_bulks(corpora, s, e, n, case["bulk"])
    # total_bulks is only observable through the parameter source: count params() calls against an endless reader
    tb = observed_total_bulks(corpora, s, e, n, case["bulk"], pct, limit=300)
    if m["r"][0] != nb:
        ctx.diff("number_of_bulks", m["r"][0], nb)
    if tb is not None and m["r"][1] != tb:
        ctx.diff("total_bulks", m["r"][1], tb)
    # oracle: number of bulks = sum of ceilings; total_bulks within one of the exact ceiling, equal when the product is exact
    exp_nb = 0
    for d in docsets:
        _, docs, _ = params.bounds(d["docs"], s, e, n, d["meta"])
        exp_nb += -(-docs // case["bulk"])
    if nb != exp_nb:
        ctx.fail("number-of-bulks", "number_of_bulks is not the sum of ceil(docs / bulk_size)", exp_nb, nb)
    if tb is not None:
        exact = math.ceil(Fraction(nb) * Fraction(pct) / 100)
        prod_exact = Fraction(nb * pct) == Fraction(nb) * Fraction(pct)
        if abs(tb - exact) > 1 or (prod_exact and tb != exact):
            ctx.fail("total-bulks-ceiling", "total_bulks is not ceil(all_bulks * pct / 100)", exact, tb)
    ctx.count("arith:tb-observed" if tb is not None else "arith:tb-too-large")
    ctx.sig([m.get("tags"), len(case["ends"]) > 1, total < 2**20, tb is not None and tb != exp_nb], nontrivial=total > 0)


class _Endless:
    """reader handed to the documented unit-test hook `__create_reader`: endless one-document bulks"""

    def __enter__(self):
        return self

    def __exit__(self, *a):
        return False

    def __iter__(self):
        return self

    def __next__(self):
        return "i", None, [(1, b"{}\n")]


def observed_total_bulks(corpora, s, e, n, bulk, pct, limit):
    """number of params() calls of the group s..e that succeed before StopIteration (None if > limit)"""
    from esrally.track import params, track

    src = params.BulkIndexParamSource(track.Track(name="t", corpora=corpora),
                                      {"bulk-size": bulk, "ingest-percentage": pct, "__create_reader": lambda *a: _Endless()})
    p = None
    for c in range(s, e + 1):
        p = src.partition(c, n)
    k = 0
    while k <= limit:
        try:
            p.params()
        except StopIteration:
            return k
        k += 1
    return None


# ---------------------------------------------------------------------------------------------
# stream: files
# ---------------------------------------------------------------------------------------------
STYLES = ["ascii", "ascii", "utf8", "utf8", "tiny", "dup", "padded", "cr", "cr", "crlf"]
# the reader / lines / offsets streams also take "ctl" (not strict JSON: never where the harness has to parse the document)
BYTE_STYLES = STYLES + ["ctl", "ctl", "cr"]


def text_mode_line_count(data):
    """number of lines a text-mode reader with universal newlines counts in `data` (derived from the bytes):
    every "\n", every "\r" that is not followed by "\n", and an unterminated rest"""
    bare = data.count(b"\r") - data.count(b"\r\n")
    return data.count(b"\n") + bare + (1 if data and not data.endswith((b"\n", b"\r")) else 0)


def newline_lines(data):
    """the lines of `data` (terminators kept): a line ends at "\n" and only there"""
    parts = data.split(b"\n")
    out = [q + b"\n" for q in parts[:-1]]
    if parts[-1] != b"":
        out.append(parts[-1])
    return out


def gen_files(ctx):
    rng = ctx.rng
    big_budget = 1 if ctx.tier == "quick" else 3
    for k in range(ctx.budget):
        big = big_budget > 0 and k == 0 and ctx.shard % 4 == 0
        if big:
            big_budget -= 1
        ncorp = rng.choice([1, 1, 2, 2, 3])
        conflicts = rng.choice(["none", "none", "none", "sequential", "random"]) if not big else rng.choice(["none", "sequential"])
        corpora = []
        fidx = 0
        for _ in range(ncorp):
            files = []
            for _ in range(rng.choice([1, 1, 2, 3])):
                meta = conflicts == "none" and rng.random() < 0.4
                if big and fidx == 0:
                    nd = rng.choice([50001, 50000, 60007, 25001 if meta else 50003])
                    if ctx.tier == "thorough":
                        nd = rng.choice([50001, 100003, 150001, 99999])
                    style = rng.choice(["tiny", "ascii", "crlf"])
                else:
                    nd = rng.choice([0, 1, 2, 3, 5, 8, 13, 20, 40, 77, 120, rng.randrange(0, 121)])
                    style = rng.choice(STYLES)
                ds = (not meta) and conflicts == "none" and rng.random() < 0.15
                files.append({"docs": nd, "meta": meta, "style": style, "nl": rng.random() < 0.8, "ds": ds,
                              "type": rng.random() < 0.3 and not ds})
                fidx += 1
            corpora.append(files)
        if all(f["docs"] == 0 for c in corpora for f in c):
            corpora[0][0]["docs"] = 4
        n = rng.choice([1, 1, 2, 3, 4, 5, 8, 16, rng.randrange(1, 40)])
        # contiguous split of the clients into workers
        nw = rng.randrange(1, min(n, 4) + 1)
        cuts = sorted(rng.sample(range(1, n), nw - 1)) if n > 1 else []
        workers = []
        a = 0
        for c in cuts + [n]:
            workers.append([a, c - 1])
            a = c
        bulk = rng.choice([1, 1, 2, 3, 5, 10, 50, 1000]) if not big else rng.choice([1000, 5000, 777])
        batch = bulk * rng.choice([1, 1, 2, 3, 10])
        pct = rng.choice([100.0] * 6 + [50.0, 10.0, 33.3, 99.9, 1.0, 0.5, 75.0, rng.random() * 100 or 1.0])
        case = {"corpora": corpora, "n": n, "workers": workers, "bulk": bulk, "batch": batch, "pct": fs(pct), "conflicts": conflicts,
                "seed": rng.randrange(1 << 30),
                # looped re-initialisation continues the random stream where the lazy generator stopped; the model generates
                # eagerly, so looped mode is only exercised without random draws
                "looped": conflicts == "none" and rng.random() < 0.08}
        if conflicts != "none":
            case["prob"] = fs(rng.choice([25.0, 100.0, 50.0, 0.0, 1.0, 75.5, rng.random() * 100]))
            case["on_conflict"] = rng.choice(["index", "update"])
            case["recency"] = fs(rng.choice([0.0, 0.0, 0.5, 1.0, 0.1, rng.random()]))
            case["defaults"] = rng.random() < 0.15  # leave probability / on-conflict / recency to their defaults
        yield case


def build_tree(tmp, case):
    """write the data files; returns (files: fidx -> lines, targets, rally corpora list, model corpora list)"""
    from esrally.track import track
    from esrally.utils import io

    files, targets, rc, mc = {}, {}, [], []
    fidx = 0
    for ci, corpus in enumerate(case["corpora"]):
        docs_objs, mdocs = [], []
        for f in corpus:
            lines = make_lines(fidx, f["style"], f["docs"], f["meta"], f["nl"], case["seed"])
            path = os.path.join(tmp, f"c{ci}-f{fidx}.json")
            with open(path, "wb") as fh:
                fh.write(b"".join(lines))
            # what DocumentSetPreparator.create_file_offset_table does (loader.py)
            data = b"".join(lines)
            if newline_lines(data) != lines:
                raise HarnessError("generated lines are not the newline-terminated lines of the generated bytes")
            read = io.prepare_file_offset_table(path)
            if read is not None and read != len(lines):
                # what DocumentSetPreparator.create_file_offset_table does when the count is not the declared number of lines
                # (today: a "\r" that is not followed by "\n" is a line end for the text-mode pass): the table is removed again
                # (and DataError raised); the readers are driven on the file as it is.  The count itself is judged in the
                # stream offsets.
                io.remove_file_offset_table(path)
            name = f"ds{fidx}" if f["ds"] else f"idx{fidx}"
            typ = "typ" if f["type"] else None
            files[fidx] = lines
            targets[fidx] = (name, typ, f["ds"])
            docs_objs.append(track.Documents(source_format="bulk", document_file=path, number_of_documents=f["docs"],
                                             includes_action_and_meta_data=f["meta"],
                                             target_index=None if f["ds"] else name, target_data_stream=name if f["ds"] else None,
                                             target_type=typ))
            mdocs.append({"lines": len(lines), "docs": f["docs"], "meta": f["meta"], "ds": f["ds"], "fidx": fidx})
            fidx += 1
        rc.append(track.DocumentCorpus(f"corpus{ci}", documents=docs_objs))
        mc.append(mdocs)
    return files, targets, rc, mc


def worker_params(case):
    p = {"bulk-size": case["bulk"], "batch-size": case["batch"], "ingest-percentage": float(Fraction(case["pct"]))}
    if case.get("looped"):
        p["looped"] = True
    if case["conflicts"] != "none":
        p["conflicts"] = case["conflicts"]
        if not case.get("defaults"):
            p["conflict-probability"] = float(Fraction(case["prob"]))
            p["on-conflict"] = case["on_conflict"]
            p["recency"] = float(Fraction(case["recency"]))
    return p


def model_cfg(case):
    cfg = {"batch": case["batch"], "bulk": case["bulk"], "conflicts": case["conflicts"], "pct": case["pct"],
           "looped": bool(case.get("looped")), "prob": None, "on_update": False, "recency": None}
    if case["conflicts"] != "none":
        if case.get("defaults"):
            cfg.update(prob=fs(25.0), on_update=False, recency=fs(0.0))
        else:
            cfg.update(prob=case["prob"], on_update=case["on_conflict"] == "update", recency=case["recency"])
    return cfg


def drive_worker(rng, src, s, e, n, max_calls):
    """what AsyncIoAdapter.run + ScheduleHandle.__call__ do for the co-located clients s..e of one task"""
    order = list(range(s, e + 1))
    rng.shuffle(order)
    part = None
    for c in order:
        part = src.partition(c, n)
    active = list(range(s, e + 1))
    calls, events = [], []
    style = rng.choice(["random", "random", "round-robin", "one-first"])
    k = 0
    while active and len(calls) < max_calls:
        if style == "round-robin":
            c = active[k % len(active)]
        elif style == "one-first":
            c = active[0] if rng.random() < 0.9 else rng.choice(active)
        else:
            c = rng.choice(active)
        k += 1
        calls.append(c)
        # ScheduleHandle.__call__ (parameter source decides when to stop): progress first, then the parameters
        if hasattr(type(part), "percent_completed"):  # (hasattr on the instance would evaluate the property)
            try:
                part.percent_completed
            except ZeroDivisionError:
                return order, calls, events, False, ZERO_DIV
        try:
            p = part.params()
            events.append((c, p))
        except StopIteration:
            events.append((c, None))
            active.remove(c)
    return order, calls, events, bool(active), None


ZERO_DIV = "ZeroDivisionError:percent_completed"


def report_zero_division(ctx, where):
    ctx.fail("empty-share-group-zero-division",
             "a co-located client of a group whose share of the corpus is empty fails with ZeroDivisionError in percent_completed "
             "(total_bulks = 0 after another client initialised the group): the race aborts", "StopIteration for every client of the group", where)


def reference_bulks(src, s, e, n, limit):
    """all bulks of the group s..e at the source's percentage, asked for by one client after the other"""
    part = None
    for c in range(s, e + 1):
        part = src.partition(c, n)
    out = []
    while len(out) <= limit:
        try:
            out.append(part.params())
        except StopIteration:
            break
    return out


def check_stop_count(ctx, ref, got, pctf, compare_bodies):
    """direct oracle of the ingest-percentage clause: the group issues exactly the first ceil(p%) of its bulks
    (`ref` = its bulks at 100 %).  The code computes all*p/100 in doubles: a result one off the exact ceiling is only
    accepted when the product all*p is not exactly representable (see total_bulks_vs_exact_ceiling)."""
    nb = len(ref)
    exact = math.ceil(Fraction(nb) * pctf / 100)
    prod_exact = Fraction(nb * float(pctf)) == Fraction(nb) * pctf
    if abs(len(got) - exact) > 1 or (prod_exact and len(got) != exact) or len(got) > nb:
        ctx.fail("stop-count", "a group of co-located clients did not stop after the first ceil(p%) of its bulks",
                 {"bulks_at_100": nb, "expected": exact}, len(got))
    elif compare_bodies and [p["body"] for p in got] != [p["body"] for p in ref[: len(got)]]:
        ctx.fail("not-a-prefix", "the bulks issued under an ingest percentage are not the first bulks of the group", None, None)


def run_files(ctx, case):
    from esrally.track import params, track

    tmp = tempfile.mkdtemp(prefix="c03-")
    try:
        files, targets, rc, mc = build_tree(tmp, case)

        def make_source(extra=None):
            return params.BulkIndexParamSource(track.Track(name="t", corpora=rc), dict(worker_params(case), **(extra or {})))

        drive_and_judge(ctx, case, files, targets, mc, make_source, "files", [])
    finally:
        shutil.rmtree(tmp, ignore_errors=True)


def drive_and_judge(ctx, case, files, targets, mc, make_source, prefix, extra_sig):
    """the workers of the case on parameter sources from `make_source` (one per worker): model comparison + direct oracle.
    files: fidx -> physical lines; mc: per corpus the document sets ("meta" = whether the FILE has action lines)"""
    import random

    from esrally.track import params, track
    from esrally import exceptions

    # BulkIndexParamSource.used_corpora drops corpora without documents
    keep = [i for i, c in enumerate(mc) if sum(d["docs"] for d in c) > 0]
    # (the spec stream hands over the flags the Lean model of _create_corpora resolved: "m_meta" / "m_ds")
    mcorp = [[{"lines": d["lines"], "docs": d["docs"], "meta": d.get("m_meta", d["meta"]), "ds": d.get("m_ds", d["ds"])} for d in mc[i]] for i in keep]
    # the driver numbers files consecutively over the corpora it is given
    remap = {}
    j = 0
    for i in keep:
        for d in mc[i]:
            remap[j] = d["fidx"]
            j += 1
    mfiles = {j: files[f] for j, f in remap.items()}
    mtargets = {j: targets[f] for j, f in remap.items()}
    n = case["n"]
    rng = random.Random(case["seed"])
    prob_float = None
    if case["conflicts"] != "none":
        prob_float = 25.0 if case.get("defaults") else float(Fraction(case["prob"]))
    # document line (raw, and as canonical JSON) -> (file, document number) where that is unique in the whole corpus
    def unique_index(keyfn):
        idx, dup = {}, set()
        for f, ls in files.items():
            step = 2 if any(d["fidx"] == f and d["meta"] for c in mc for d in c) else 1
            for q, l in enumerate(ls[step - 1::step]):
                try:
                    key = keyfn(l)
                except ValueError:
                    continue
                if key in idx or key in dup:
                    dup.add(key)
                    idx.pop(key, None)
                else:
                    idx[key] = (f, q)
        # only files all of whose documents can be located
        full = {f for f, ls in files.items()
                if sum(1 for v in idx.values() if v[0] == f) == len(ls) // (2 if any(d["fidx"] == f and d["meta"] for c in mc for d in c) else 1)}
        return {k: v for k, v in idx.items() if v[0] in full}

    line_pos = unique_index(lambda l: l)
    json_pos = unique_index(lambda l: json.dumps(json.loads(l), sort_keys=True))
    eligible = {v[0] for v in line_pos.values()} & {v[0] for v in json_pos.values()}
    line_pos = {k: v for k, v in line_pos.items() if v[0] in eligible}
    json_pos = {k: v for k, v in json_pos.items() if v[0] in eligible}
    all_pairs = []      # (action line or None, document line) over all workers — for the exactly-once oracle
    total_docs = sum(d["docs"] for c in mc for d in c)
    any_bulk = False
    kinds = set()
    tags = []
    outcome = "ok"
    for (s, e) in case["workers"]:
        rec = Rec(rng, prob_float)
        with patched_random(rec):
            src = make_source()
            limit = 3 * (total_docs + 5) + 50
            crash = None
            try:
                order, calls, events, unfinished, crash = drive_worker(rng, src, s, e, n, limit if not case.get("looped") else min(limit, 60))
                err = None
            except (exceptions.RallyError, IndexError, ZeroDivisionError) as ex:
                err = type(ex).__name__
        if rec.bad:
            raise HarnessError("; ".join(rec.bad))
        margs = dict(model_cfg(case), corpora=mcorp, n=n, partitions=order if err is None else list(range(s, e + 1)),
                     calls=calls if err is None else [s], oracle=rec.as_json())
        m = ctx.model("bulk", "worker", margs)
        tags.append(m.get("tags"))
        if err is not None:
            outcome = err
            if m.get("err") != err:
                ctx.diff("worker-error", m, err)
            continue
        if crash is not None:
            outcome = crash
            if m.get("err") != crash:
                ctx.diff("worker-error", m, crash)
            report_zero_division(ctx, {"clients": [s, e], "of": n, "calls": calls})
            continue
        if "err" in m:
            ctx.diff("worker-error", m, "no error")
            continue
        if unfinished and not case.get("looped"):
            ctx.fail("does-not-stop", "clients still get bulks after 3x the corpus size", None, len(calls))
        mout = m["r"]["out"]
        real_bulks = [(c, p) for c, p in events if p is not None]
        if [c for c, _ in real_bulks] != [x[0] for x in mout]:
            ctx.diff("who-gets-a-bulk", [x[0] for x in mout], [c for c, _ in real_bulks])
        seen = {}  # target index -> fresh ids emitted so far by this worker
        order_of = {}  # file -> positions of its document lines in the order this worker emitted them
        for k, (c, p) in enumerate(real_bulks):
            any_bulk = True
            blines = split_body(p["body"])
            if k < len(mout):
                mdocs, mitems = mout[k][1]
                d = None
                if mdocs != p["bulk-size"]:
                    d = f"bulk {k}: bulk-size model {mdocs}, impl {p['bulk-size']}"
                d = d or check_items(ctx, f"bulk {k}", mitems, blines, mfiles, mtargets)
                if d:
                    ctx.diff("bulk-body", d, None)
            # ---- direct oracle on the real bulk -------------------------------------------------
            if p["bulk-size"] > case["bulk"] or p["bulk-size"] <= 0:
                ctx.fail("bulk-over-size", "bulk-size outside (0, configured bulk size]", case["bulk"], p["bulk-size"])
            if len(blines) != 2 * p["bulk-size"]:
                ctx.fail("pairing", "body is not bulk-size (action, document) pairs", 2 * p["bulk-size"], len(blines))
                continue
            for q in range(0, len(blines), 2):
                a, dline = blines[q], blines[q + 1]
                try:
                    aj = json.loads(a)
                except ValueError:
                    aj = None
                if not (isinstance(aj, dict) and len(aj) == 1 and list(aj)[0] in ("index", "create", "update")
                        and isinstance(aj[list(aj)[0]], dict) and a.endswith(b"\n")):
                    ctx.fail("pairing", "line at an even position of the body is not an action-and-meta-data line", None, repr(a))
                    continue
                act = list(aj)[0]
                kinds.add(act)
                if act == "update":
                    try:
                        dj = json.loads(dline)
                        inner = dj["doc"]
                    except (ValueError, KeyError, TypeError):
                        ctx.fail("pairing", "update action not followed by a {\"doc\": …} line", None, repr(dline))
                        continue
                    all_pairs.append((None, json.dumps(inner, sort_keys=True)))
                    pos = json_pos.get(json.dumps(inner, sort_keys=True))
                    if pos is not None:
                        order_of.setdefault(pos[0], []).append(pos[1])
                else:
                    all_pairs.append((a if "_id" in aj[act] and case["conflicts"] == "none" else None, dline))
                    pos = line_pos.get(dline)
                    if pos is not None:
                        order_of.setdefault(pos[0], []).append(pos[1])
                if case["conflicts"] != "none":
                    idv = aj[act].get("_id")
                    seen_ids = seen.setdefault(aj[act].get("_index"), [])
                    is_conflict = act == "update" or idv in seen_ids
                    if act == "update" and idv not in seen_ids:
                        ctx.fail("conflict-id-not-seen", "an update refers to an id this worker has not emitted before", seen_ids[-5:], idv)
                    if not is_conflict:
                        seen_ids.append(idv)
        # each group of co-located clients reads one contiguous slice of every file, in file order
        for f, poss in order_of.items():
            if not case.get("looped") and poss != list(range(poss[0], poss[0] + len(poss))):
                ctx.fail("slice-not-contiguous", "a worker's documents of one file are not a contiguous range in file order", None, {"file": f, "positions": poss[:12]})
        # per-worker stop count (ingest percentage)
        if not case.get("looped"):
            pctf = Fraction(case["pct"])
            if pctf == 100:
                ref = [p for _, p in real_bulks]
            else:
                # "its bulks" = what the same group issues without a percentage (independent of number_of_bulks)
                with patched_random(Rec(random.Random(case["seed"] + 1), prob_float)):
                    ref_src = make_source({"ingest-percentage": 100})
                    ref = reference_bulks(ref_src, s, e, n, limit)
            check_stop_count(ctx, ref, [p for _, p in real_bulks], pctf, case["conflicts"] == "none")
            if m["r"]["total_bulks"] != len(real_bulks) and len(ref) >= len(real_bulks):
                ctx.diff("total_bulks", m["r"]["total_bulks"], len(real_bulks))
        # fresh ids are emitted once and in list order; conflict ids ⊆ earlier ids (checked above)
        for seen_ids in seen.values():
            if case["conflicts"] == "sequential" and seen_ids != sorted(seen_ids):
                ctx.fail("fresh-ids-out-of-order", "fresh ids of sequential conflicts are not increasing", None, seen_ids[:10])
            if len(set(seen_ids)) != len(seen_ids):
                ctx.fail("fresh-id-twice", "a fresh id was emitted twice", None, None)
    # ---- exactly once over all workers (full ingestion, no loop, no error) -----------------------
    if outcome == "ok" and not case.get("looped") and Fraction(case["pct"]) == 100:
        expected = []
        fidx = 0
        for ci, c in enumerate(mc):
            for d in c:
                if ci in keep:
                    ls = files[d["fidx"]]
                    if d["meta"]:
                        expected += [(ls[2 * q], ls[2 * q + 1]) for q in range(d["docs"])]
                    else:
                        expected += [(None, l) for l in ls]
        if case["conflicts"] != "none" and any(x[0] is None for x in all_pairs):
            # update wrappers were normalised to canonical JSON; documents emitted under a conflicting id still count
            def norm(pr):
                # what is not a JSON document (a fragment of a line) stays as it is and is judged by the comparison
                try:
                    return (None, json.dumps(json.loads(pr[1]), sort_keys=True))
                except (ValueError, TypeError):
                    return (None, "not-json:" + repr(pr[1]))

            if sorted(map(norm, all_pairs)) != sorted(map(norm, expected)):
                ctx.fail("not-exactly-once", "multiset of documents over all bulks differs from the corpus", len(expected), len(all_pairs))
        elif sorted(all_pairs, key=repr) != sorted(expected, key=repr):
            miss = len(expected) - len(all_pairs)
            ctx.fail("not-exactly-once", "multiset of (action, document) pairs over all bulks differs from the corpus",
                     {"corpus_docs": len(expected)}, {"emitted": len(all_pairs), "missing": miss})
    big = any(d["docs"] >= 25000 for c in mc for d in c)
    ctx.count(f"{prefix}:big" if big else f"{prefix}:small")
    ctx.count(f"{prefix}:conflicts=" + case["conflicts"])
    ctx.count(f"{prefix}:workers=%d" % len(case["workers"]))
    ctx.sig([sorted(set(json.dumps(t) for t in tags)), sorted(kinds), len(case["workers"]) > 1, case["batch"] > case["bulk"],
             Fraction(case["pct"]) == 100, case["conflicts"], outcome, big] + list(extra_sig), nontrivial=any_bulk)


# ---------------------------------------------------------------------------------------------
# stream: spec — track specification (JSON) -> TrackSpecificationReader -> set_absolute_data_path ->
# operation_parameters -> BulkIndexParamSource: corpus-level defaults and document-level settings
# ---------------------------------------------------------------------------------------------
def gen_spec(ctx):
    rng = ctx.rng
    for base_case in gen_files(ctx):
        case = dict(base_case)
        if any(f["docs"] >= 25000 for c in case["corpora"] for f in c):
            for c in case["corpora"]:
                for f in c:
                    f["docs"] = min(f["docs"], 97)
        # conflicts need files without action lines; keep that dimension to the files stream
        case["conflicts"] = "none"
        for k in ("prob", "on_conflict", "recency", "defaults"):
            case.pop(k, None)
        case["looped"] = False
        mode = rng.choice(["one-index", "one-index", "indices", "indices", "one-stream", "streams", "none"])
        nidx = {"one-index": 1, "indices": rng.choice([2, 3])}.get(mode, 0)
        nds = {"one-stream": 1, "streams": 2}.get(mode, 0)
        if rng.random() < 0.03:
            nidx, nds = 1, 1                                   # both: rejected
        case["indices"], case["streams"] = nidx, nds
        levels = []
        for corpus in case["corpora"]:
            cmeta = rng.choice([None, None, True, True, False])
            lvl = {"meta": cmeta, "idx": None, "ds": None, "format": rng.choice([None, None, "bulk"]),
                   "base_url": rng.choice([None, None, "http://benchmarks.example.org/corpora"])}
            if nidx and rng.random() < (0.3 if nidx == 1 else 0.6):
                lvl["idx"] = rng.randrange(nidx)
            if nds and rng.random() < (0.3 if nds == 1 else 0.6):
                lvl["ds"] = rng.randrange(nds)
            levels.append(lvl)
            for f in corpus:
                # the FILE: with or without action lines; then a legal spelling of that fact on the two levels
                phys = rng.random() < (0.5 if cmeta else 0.3)
                if mode == "none":
                    phys = phys or rng.random() < 0.85   # without any target only files with action lines are legal
                f["meta"] = phys
                default = bool(cmeta) if cmeta is not None else False
                if phys == default and rng.random() < 0.6:
                    f["s_meta"] = None
                else:
                    f["s_meta"] = phys
                f["s_idx"] = f["s_ds"] = None
                r = rng.random()
                if nidx and (r < 0.35 or (nidx > 1 and lvl["idx"] is None and r < 0.9)):
                    f["s_idx"] = rng.randrange(nidx)
                if nds and (r < 0.35 or (nds > 1 and lvl["ds"] is None and r < 0.9)):
                    f["s_ds"] = rng.randrange(nds)
                if rng.random() < 0.03:
                    f["s_ds" if nidx else "s_idx"] = 0       # a target of the wrong kind: rejected
                f["s_format"] = rng.choice([None, None, "bulk"])
                f["ds"] = f["type"] = False
        case["levels"] = levels
        yield case


def spec_document(case, tmp, overrides=None):
    """the track specification of the case (what json.load of track.json gives) + the files on disk"""
    corpora = []
    fidx = 0
    for ci, (corpus, lvl) in enumerate(zip(case["corpora"], case["levels"])):
        c = {"name": f"corpus{ci}"}
        if lvl["meta"] is not None:
            c["includes-action-and-meta-data"] = lvl["meta"]
        if lvl["idx"] is not None:
            c["target-index"] = f"idx{lvl['idx']}"
        if lvl["ds"] is not None:
            c["target-data-stream"] = f"ds{lvl['ds']}"
        if lvl["format"]:
            c["source-format"] = lvl["format"]
        if lvl["base_url"]:
            c["base-url"] = lvl["base_url"]
        docs = []
        for f in corpus:
            d = {"source-file": f"f{fidx}.json", "document-count": f["docs"]}
            if f["s_meta"] is not None:
                d["includes-action-and-meta-data"] = f["s_meta"]
            if f["s_idx"] is not None:
                d["target-index"] = f"idx{f['s_idx']}"
            if f["s_ds"] is not None:
                d["target-data-stream"] = f"ds{f['s_ds']}"
            if f["s_format"]:
                d["source-format"] = f["s_format"]
            docs.append(d)
            fidx += 1
        c["documents"] = docs
        corpora.append(c)
    op = {"name": "bulk-it", "operation-type": "bulk"}
    op.update(worker_params(case))
    op.update(overrides or {})
    spec = {"description": "generated", "corpora": corpora,
            "challenges": [{"name": "only", "default": True, "schedule": [{"operation": op, "clients": case["n"]}]}]}
    if case["indices"]:
        spec["indices"] = [{"name": f"idx{i}"} for i in range(case["indices"])]
    if case["streams"]:
        spec["data-streams"] = [{"name": f"ds{i}"} for i in range(case["streams"])]
    return spec


def run_spec(ctx, case):
    from esrally import config, track
    from esrally.track import loader
    from esrally.utils import io

    tmp = tempfile.mkdtemp(prefix="c03-")
    try:
        # the files, physically as the case says; <data cache>/<corpus name>/<file>
        files, mc, mspecs = {}, [], []
        fidx = 0
        for ci, (corpus, lvl) in enumerate(zip(case["corpora"], case["levels"])):
            os.makedirs(os.path.join(tmp, "cache", f"corpus{ci}"))
            mdocs, sdocs = [], []
            for f in corpus:
                lines = make_lines(fidx, f["style"], f["docs"], f["meta"], f["nl"], case["seed"])
                path = os.path.join(tmp, "cache", f"corpus{ci}", f"f{fidx}.json")
                with open(path, "wb") as fh:
                    fh.write(b"".join(lines))
                io.prepare_file_offset_table(path)
                files[fidx] = lines
                mdocs.append({"lines": len(lines), "docs": f["docs"], "meta": f["meta"], "ds": False, "fidx": fidx})
                sdocs.append({"lines": len(lines), "docs": f["docs"], "meta": f["s_meta"], "idx": f["s_idx"], "ds": f["s_ds"]})
                fidx += 1
            mc.append(mdocs)
            mspecs.append({"meta": lvl["meta"], "idx": lvl["idx"], "ds": lvl["ds"], "docs": sdocs})
        m = ctx.model("bulk", "spec", {"specs": mspecs, "indices": list(range(case["indices"])), "streams": list(range(case["streams"]))})

        def load(overrides=None):
            reader = loader.TrackSpecificationReader()
            t = reader("generated", json.loads(json.dumps(spec_document(case, tmp, overrides))), tmp)
            cfg = config.Config()
            cfg.add(config.Scope.application, "benchmarks", "local.dataset.cache", os.path.join(tmp, "cache"))
            loader.set_absolute_data_path(cfg, t)
            return t

        try:
            t = load()
            err = None
        except loader.TrackSyntaxError:
            err = "TrackSyntaxError"
        # direct expectation from the raw specification: the most specific definition wins
        exp_err = bool(case["indices"] and case["streams"])
        targets = {}
        for corpus, lvl in zip(mc, case["levels"]):
            for d, f in zip(corpus, [f for c in case["corpora"] for f in c][corpus[0]["fidx"]:] if corpus else []):
                if f["meta"]:
                    targets[d["fidx"]] = (None, None, False)
                    continue
                # corpus-level targets only exist for the kind of target the track declares; one declared name is the default
                c_idx = (lvl["idx"] if lvl["idx"] is not None else (0 if case["indices"] == 1 else None)) if case["indices"] else None
                c_ds = (lvl["ds"] if lvl["ds"] is not None else (0 if case["streams"] == 1 else None)) if case["streams"] else None
                idx = f["s_idx"] if f["s_idx"] is not None else c_idx
                dsn = f["s_ds"] if f["s_ds"] is not None else c_ds
                # legal: exactly one unambiguous target, of the kind the track declares (a track that declares neither may name an index)
                if (dsn is not None and case["indices"]) or (idx is not None and case["streams"]) or (idx is None and dsn is None):
                    exp_err = True
                targets[d["fidx"]] = (f"idx{idx}", None, False) if idx is not None else (f"ds{dsn}", None, True)
        if err or "err" in m:
            if m.get("err") != err:
                ctx.diff("spec-error", m, err)
            if err and not exp_err:
                ctx.fail("legal-spec-rejected", "a legal track specification is rejected", "a track", err)
            ctx.count("spec:rejected")
            ctx.sig(["spec", "err", err, m.get("tags")])
            return
        if exp_err:
            ctx.fail("illegal-spec-accepted", "a specification whose document sets have no unambiguous target is accepted", "TrackSyntaxError", "a track")
        resolved = m["r"]
        loaded = [[{"meta": bool(d.includes_action_and_meta_data), "ds": (not d.target_index) and bool(d.target_data_stream),
                    "docs": d.number_of_documents} for d in c.documents] for c in t.corpora]
        if loaded != [[{k: d[k] for k in ("meta", "ds", "docs")} for d in c] for c in resolved]:
            ctx.diff("loaded document sets", resolved, loaded)
        # the property's own statement on what was loaded: a file is read the way it is physically laid out
        for c, corpus in zip(t.corpora, mc):
            for d, x in zip(c.documents, corpus):
                if bool(d.includes_action_and_meta_data) != x["meta"]:
                    ctx.fail("spec-flag-not-most-specific", "a document set is not loaded with the action-and-meta-data setting of its most specific "
                             "declaration (document set, else corpus, else false)", x["meta"], d.includes_action_and_meta_data)
                if not x["meta"]:
                    name, _, is_ds = targets[x["fidx"]]
                    got = d.target_data_stream if is_ds else d.target_index
                    if got != name or (is_ds and d.target_index) or (not is_ds and d.target_data_stream):
                        ctx.fail("spec-target-not-most-specific", "a document set is not loaded with the target of its most specific declaration",
                                 name, [d.target_index, d.target_data_stream])
        for corpus, rcorp in zip(mc, resolved):
            for x, r in zip(corpus, rcorp):
                x["m_meta"], x["m_ds"] = r["meta"], r["ds"]
                x["ds"] = targets[x["fidx"]][2]

        def make_source(extra=None):
            tt = load(extra) if extra else t
            return track.operation_parameters(tt, tt.challenges[0].schedule[0])

        tags = m.get("tags") or []
        for tg in tags:
            ctx.count("spec:" + tg)
        drive_and_judge(ctx, case, files, targets, mc, make_source, "spec", [tags])
    finally:
        shutil.rmtree(tmp, ignore_errors=True)


# ---------------------------------------------------------------------------------------------
# stream: reader
# ---------------------------------------------------------------------------------------------
def gen_reader(ctx):
    rng = ctx.rng
    for _ in range(ctx.budget):
        kind = rng.choice(["source_only", "fast_index", "fast_create", "regular", "regular"])
        nl = rng.choice([1, 2, 3, 5, 10, 31, 64, rng.randrange(1, 121)])
        if kind == "source_only" and rng.random() < 0.8:
            nl += nl % 2
        off = rng.choice([0, 0, 1, 2, rng.randrange(0, nl + 3)])
        cnt = rng.choice([nl, max(nl - off, 0), rng.randrange(0, nl + 5), 1, 2])
        if kind == "source_only" and rng.random() < 0.8:
            off -= off % 2
            cnt -= cnt % 2
        bulk = rng.choice([1, 2, 3, 4, 7, 50])
        batch = bulk * rng.choice([1, 1, 2, 5])
        case = {"kind": kind, "lines": nl, "offset": off, "count": cnt, "bulk": bulk, "batch": batch,
                "style": rng.choice(BYTE_STYLES), "nl": rng.random() < 0.8, "seed": rng.randrange(1 << 30)}
        if kind == "regular" and case["style"] == "ctl":
            case["style"] = "cr"  # the oracle parses the documents of update actions
        if kind == "regular":
            nids = rng.choice([cnt, cnt, cnt + 3, max(cnt - 1, 0)])
            ids = [off + i for i in range(nids)]
            if rng.random() < 0.4:
                rng.shuffle(ids)
            case.update(ids=ids, prob=fs(rng.choice([25.0, 100.0, 50.0, 0.0, 80.0])), on_conflict=rng.choice(["index", "update"]),
                        recency=fs(rng.choice([0.0, 0.0, 0.5, 1.0])))
        yield case


def run_reader(ctx, case):
    import random

    from esrally.track import params
    from esrally.utils import io

    tmp = tempfile.mkdtemp(prefix="c03-")
    try:
        kind = case["kind"]
        meta = kind == "source_only"
        lines = make_lines(0, case["style"], case["lines"], False, case["nl"], case["seed"])
        if meta:  # make the even lines look like action lines
            lines = [(b'{"index": {"_id": "%d"}}\n' % i) if i % 2 == 0 else l for i, l in enumerate(lines)]
            if lines and not case["nl"] and len(lines) % 2 == 1:
                lines[-1] = lines[-1].rstrip(b"\n")
        path = os.path.join(tmp, "data.json")
        data = b"".join(lines)
        with open(path, "wb") as fh:
            fh.write(data)
        # the expectation of the oracle below: the newline-terminated lines of the BYTES written
        if newline_lines(data) != lines:
            raise HarnessError("generated lines are not the newline-terminated lines of the generated bytes")
        if b"\r" in data.replace(b"\r\n", b""):
            ctx.count("reader:bare-cr-in-a-line")
        elif b"\r\n" in data:
            ctx.count("reader:crlf-only")
        if any(len(l.decode("utf-8").splitlines()) > 1 for l in lines):
            ctx.count("reader:line-that-str.splitlines-would-cut")
        rng = random.Random(case["seed"])
        source = params.Slice(io.MmapSource, case["offset"], case["count"])
        margs = {k: case[k] for k in ("kind", "lines", "offset", "count", "bulk", "batch")}
        margs.update(ids=None, prob=None, on_update=False, recency=None, use_create=kind == "fast_create")
        rec = Rec(rng, float(Fraction(case["prob"])) if kind == "regular" else None)
        if kind == "source_only":
            reader = params.SourceOnlyIndexDataReader(path, case["batch"], case["bulk"], source, "idx", None)
        else:
            if kind == "regular":
                am = params.GenerateActionMetaData("idx", None, conflicting_ids=["%010d" % i for i in case["ids"]],
                                                   conflict_probability=float(Fraction(case["prob"])), on_conflict=case["on_conflict"],
                                                   recency=float(Fraction(case["recency"])), rand=rec.f_rand, randint=rec.f_randint,
                                                   randexp=rec.f_randexp)
                margs.update(ids=case["ids"], prob=case["prob"], on_update=case["on_conflict"] == "update", recency=case["recency"])
            else:
                am = params.GenerateActionMetaData("idx", None, use_create=kind == "fast_create")
            reader = params.MetadataIndexDataReader(path, case["batch"], case["bulk"], source, am, "idx", None)
        bulks = []
        err = None
        try:
            with reader:
                for index, typ, batch in reader:
                    docs_in_batch = 0
                    for docs_in_bulk, body in batch:
                        bulks.append((docs_in_bulk, body))
                        docs_in_batch += docs_in_bulk
                    if len(bulks) > 10 * (case["lines"] + 5):
                        raise HarnessError("reader does not terminate")
        except IndexError:
            err = "IndexError"
        margs["oracle"] = rec.as_json()
        m = ctx.model("bulk", "reader", margs)
        if err or "err" in m:
            if m.get("err") != err:
                ctx.diff("reader-error", m, err)
            ctx.sig([kind, "err", err])
            return
        mb = m["r"]["bulks"]
        if len(mb) != len(bulks):
            ctx.diff("number of bulks", len(mb), len(bulks))
        for k, ((n, body), (mn, mitems)) in enumerate(zip(bulks, mb)):
            d = None if n == mn else f"bulk {k}: docs model {mn} impl {n}"
            d = d or check_items(ctx, f"bulk {k}", mitems, split_body(body), {0: lines}, {0: ("idx", None, False)})
            if d:
                ctx.diff("reader-bulk", d, None)
        if kind == "regular" and m["r"]["cnt"][:3] != [len(rec.rand), len(rec.randint), len(rec.randexp)]:
            ctx.diff("draw counts", m["r"]["cnt"], [len(rec.rand), len(rec.randint), len(rec.randexp)])
        # ---- direct oracle ---------------------------------------------------------------------------
        window = lines[case["offset"]: case["offset"] + case["count"]]
        ids_ok = kind != "regular" or len(case["ids"]) >= len(window)
        wellformed = (not meta or (len(window) % 2 == 0)) and ids_ok
        got = []
        for n, body in bulks:
            bl = split_body(body)
            if n > case["bulk"] or n <= 0:
                ctx.fail("bulk-over-size", "docs_in_bulk outside (0, bulk size]", case["bulk"], n)
            if meta:
                got += bl
                if wellformed and len(bl) != 2 * n:
                    ctx.fail("pairing", "source-only bulk is not docs_in_bulk pairs", 2 * n, len(bl))
            else:
                if len(bl) != 2 * n:
                    ctx.fail("pairing", "generated bulk is not docs_in_bulk (action, document) pairs", 2 * n, len(bl))
                for q in range(1, len(bl), 2):
                    try:
                        a = json.loads(bl[q - 1])
                        act = list(a)[0] if isinstance(a, dict) and len(a) == 1 else None
                    except ValueError:
                        act = None
                    if act not in ("index", "create", "update"):
                        ctx.fail("pairing", "line at an even position of the body is not an action-and-meta-data line", None, repr(bl[q - 1]))
                        got.append(bl[q])
                    elif act == "update":
                        try:
                            dj = json.loads(bl[q])
                            got.append(("json", dj.get("doc") if isinstance(dj, dict) else None))
                        except ValueError:
                            got.append(bl[q])
                    else:
                        got.append(bl[q])
        same = len(got) == len(window) and all(
            (json.loads(w) == g[1]) if isinstance(g, tuple) else (w == g) for w, g in zip(window, got))
        if wellformed and not same:
            ctx.fail("slice-range", "concatenated bulks differ from lines [offset, offset+count) of the file",
                     {"lines": len(window)}, {"lines": len(got)})
        if wellformed and len(bulks) != -(-(len(window) // (2 if meta else 1)) // case["bulk"]):
            ctx.fail("number-of-bulks", "reader produced a number of bulks different from ceil(docs / bulk_size)",
                     -(-(len(window) // (2 if meta else 1)) // case["bulk"]), len(bulks))
        ctx.sig([m.get("tags"), case["batch"] > case["bulk"], case["offset"] + case["count"] > case["lines"], wellformed,
                 case.get("on_conflict"), case.get("recency") not in (None, "0/1")], nontrivial=bool(bulks))
    finally:
        shutil.rmtree(tmp, ignore_errors=True)


# ---------------------------------------------------------------------------------------------
# stream: gen
# ---------------------------------------------------------------------------------------------
def gen_gen(ctx):
    rng = ctx.rng
    for _ in range(ctx.budget):
        nids = rng.choice([0, 1, 2, 5, 10, 30])
        ids = [rng.randrange(0, 2 * nids + 5) + 1000 * rng.randrange(0, 2) for _ in range(nids)] if rng.random() < 0.3 else list(range(7, 7 + nids))
        if rng.random() < 0.3:
            rng.shuffle(ids)
        mode = rng.choice(["ids", "ids", "ids", "none", "create"])
        yield {"mode": mode, "ids": ids, "prob": fs(rng.choice([25.0, 100.0, 50.0, 0.0, 99.9, rng.random() * 100])),
               "on_conflict": rng.choice(["index", "update"]), "recency": fs(rng.choice([0.0, 0.0, 1.0, 0.5, 0.01, rng.random()])),
               "steps": rng.choice([0, 1, nids, 2 * nids + 3, 60]), "seed": rng.randrange(1 << 30)}


def run_gen(ctx, case):
    import random

    from esrally.track import params

    rng = random.Random(case["seed"])
    prob = float(Fraction(case["prob"]))
    rec = Rec(rng, prob)
    margs = {"ids": None, "prob": None, "on_update": False, "recency": None, "use_create": case["mode"] == "create", "steps": case["steps"]}
    if case["mode"] == "ids":
        am = params.GenerateActionMetaData("idx", None, conflicting_ids=["%010d" % i for i in case["ids"]], conflict_probability=prob,
                                           on_conflict=case["on_conflict"], recency=float(Fraction(case["recency"])),
                                           rand=rec.f_rand, randint=rec.f_randint, randexp=rec.f_randexp)
        margs.update(ids=case["ids"], prob=case["prob"], on_update=case["on_conflict"] == "update", recency=case["recency"])
    else:
        am = params.GenerateActionMetaData("idx", None, use_create=case["mode"] == "create")
    out = []
    for _ in range(case["steps"]):
        try:
            act, line = next(am)
            j = json.loads(line)
            idv = j[act].get("_id")
            out.append([act, None if idv is None else int(idv)])
        except StopIteration:
            out.append("StopIteration")
            break
        except IndexError:
            out.append("IndexError")
            break
    margs["oracle"] = rec.as_json()
    m = ctx.model("bulk", "gen", margs)
    mm = [x if isinstance(x, str) else x[:2] for x in m["r"]]
    if mm != out:
        ctx.diff("action-meta-data", mm, out)
    # direct oracle: every conflicting id was emitted before as a fresh id; fresh ids once, in list order
    if case["mode"] == "ids":
        fresh = 0
        emitted = []
        for k, o in enumerate(out):
            if isinstance(o, str):
                break
            act, idv = o
            nxt = case["ids"][fresh] if fresh < len(case["ids"]) else None
            conflict_flag = m["r"][k][2] if k < len(m["r"]) and not isinstance(m["r"][k], str) else None
            if act == "update" or (idv != nxt) or conflict_flag:
                if idv not in emitted:
                    ctx.fail("conflict-id-not-seen", "a conflicting id was not emitted earlier by this generator", emitted[-5:], idv)
            else:
                emitted.append(idv)
                fresh += 1
        if emitted != case["ids"][: len(emitted)]:
            ctx.fail("fresh-ids-out-of-order", "fresh ids are not emitted in list order", case["ids"][: len(emitted)], emitted)
    ctx.sig([case["mode"], sorted(set(o if isinstance(o, str) else o[0] for o in out)), case["recency"] != "0/1", case["prob"] in ("0/1", "100/1"),
             any((not isinstance(x, str)) and x[2] for x in m["r"])], nontrivial=bool(out))


# ---------------------------------------------------------------------------------------------
# stream: offsets
# ---------------------------------------------------------------------------------------------
def gen_offsets(ctx):
    rng = ctx.rng
    for k in range(ctx.budget):
        big = k % 2 == 0
        if big:
            nl = rng.choice([50000, 50001, 49999, 100000, 100003, 150001]) if ctx.tier == "thorough" else rng.choice([50000, 50001, 100003, 49999])
            style = rng.choice(["tiny", "var", "crlf", "cr"])
        else:
            nl = rng.choice([1, 2, 10, 100, rng.randrange(1, 300)])  # an empty file cannot be mmapped and is never opened (0 documents)
            style = rng.choice(["var", "utf8", "tiny", "cr", "ctl", "crlf"])
        targets = sorted(set([0, 1, nl, max(nl - 1, 0), nl + 3] + [rng.randrange(0, nl + 2) for _ in range(6)]
                             + ([49999, 50000, 50001, 99999, 100000, 100001] if big else [])))
        yield {"lines": nl, "style": style, "nl": rng.random() < 0.7, "seed": rng.randrange(1 << 30), "targets": targets,
               "read": rng.choice([0, 1, 3])}


def run_offsets(ctx, case):
    import random

    from esrally.utils import io

    tmp = tempfile.mkdtemp(prefix="c03-")
    try:
        rng = random.Random(case["seed"])
        if case["style"] == "var":
            lines = [(b"%d" % i) * rng.randrange(0, 3) + "é日"[: rng.randrange(0, 3)].encode("utf-8") + b"\n" for i in range(case["lines"])]
        else:
            lines = make_lines(0, case["style"], case["lines"], False, True, case["seed"])
        if lines and not case["nl"]:
            lines[-1] = lines[-1][:-1] or b"x"
        data = b"".join(lines)
        path = os.path.join(tmp, "data.json")
        with open(path, "wb") as fh:
            fh.write(data)
        hexdata = data.hex()
        if newline_lines(data) != lines:
            raise HarnessError("generated lines are not the newline-terminated lines of the generated bytes")
        bare_cr = b"\r" in data.replace(b"\r\n", b"")
        read = io.prepare_file_offset_table(path)
        table = []
        with open(path + ".offset", "rt") as fh:
            for row in fh:
                a, b = row.strip().split(";")
                table.append([int(a), int(b)])
        # a table entry that is not a byte offset: text-mode tell() after a line that ends in a bare "\r" at the end of the file
        # returns an opaque cookie (decoder flags above bit 64).  One specific history (the last byte of the file is a bare CR and
        # the number of lines is a multiple of 50 000); judged under a class of its own so that nothing else hides behind it.
        cookie = any(off >= 1 << 63 for _, off in table)
        if cookie:
            ctx.count("offsets:table-entry-is-a-tell-cookie")
            ctx.fail("offset-table-holds-tell-cookie-at-bare-cr-eof",
                     "prepare_file_offset_table stored a text-mode tell() cookie as a byte offset; skip_lines through this table cannot seek",
                     {"lines": len(lines), "last_byte": data[-1:].hex(), "offset_of_line": len(data)}, {"table": [[a, str(b)] for a, b in table]})
            table = []  # the table file itself is removed in the branch below that handles unusable tables
        # the pass as the code runs it: text mode, universal newlines (model: textLines)
        mt = ctx.model("bulklines", "texttable", {"bytes": hexdata, "every": 50000})
        refused = (bare_cr and read != len(lines)) or cookie  # the preparator would refuse the file / the table is unusable (judged above)
        if (mt["r"]["lines"] != read and (refused or not bare_cr)) or mt["r"]["nobarecr"] != (not bare_cr) or mt["r"]["nl_lines"] != len(lines):
            ctx.diff("text-mode line count", {k: mt["r"][k] for k in ("lines", "nobarecr", "nl_lines")},
                     {"lines": read, "nobarecr": not bare_cr, "nl_lines": len(lines)})
        if bare_cr and not refused:
            ctx.count("offsets:bare-cr-file-counted-by-newlines")
        if not refused:
            m = ctx.model("bulk", "table", {"bytes": hexdata, "every": 50000})
            if m["r"]["table"] != table or m["r"]["lines"] != read or (not bare_cr and mt["r"]["table"] != table):
                ctx.diff("offset table", m["r"], {"table": table, "lines": read})
            if read != len(lines):
                ctx.fail("line-count", "prepare_file_offset_table returns a wrong line count", len(lines), read)
            again = io.prepare_file_offset_table(path)
            if again is not None:
                ctx.diff("valid table is rebuilt", None, again)
        else:
            # a "\r" not followed by "\n": the text-mode pass counts it as a line end (preparator_rejects_bare_cr);
            # DocumentSetPreparator.create_file_offset_table compares with the declared number of lines, removes the table
            # and raises DataError.  Expectation from the bytes; the linear path is judged below.
            ctx.count("offsets:bare-cr-file-refused-by-preparator")
            if read != text_mode_line_count(data):
                ctx.fail("text-line-count", "prepare_file_offset_table does not count the text-mode lines", text_mode_line_count(data), read)
            io.remove_file_offset_table(path)
        # cumulative byte offsets (independent)
        cum = [0]
        for l in lines:
            cum.append(cum[-1] + len(l))
        for with_table in ((True, False) if not refused else (False,)):
            if not with_table and not refused:
                io.remove_file_offset_table(path)
            for t in case["targets"]:
                src = io.MmapSource(path, "rt").open()
                try:
                    io.skip_lines(path, src, t)
                    pos = src.mm.tell()
                    got = src.readlines(case["read"])
                finally:
                    src.close()
                mm = ctx.model("bulk", "skip", {"bytes": hexdata, "n": t, "table": table if with_table else None, "read": case["read"]})
                if mm["r"]["pos"] != pos or mm["r"]["lines"] != [g.hex() for g in got]:
                    ctx.diff("skip_lines", {"pos": mm["r"]["pos"], "lines": mm["r"]["lines"][:3]}, {"pos": pos, "lines": [g.hex() for g in got][:3], "target": t, "table": with_table})
                exp_pos = cum[min(t, len(lines))]
                if pos != exp_pos or got != lines[t: t + case["read"]]:
                    ctx.fail("skip-lands-elsewhere", "after skip_lines(n) the source is not at the start of line n",
                             {"target": t, "pos": exp_pos, "table": with_table}, {"pos": pos})
        ctx.sig([len(table), case["style"], case["nl"], case["lines"] >= 50000, bare_cr, refused], nontrivial=case["lines"] > 0)
    finally:
        shutil.rmtree(tmp, ignore_errors=True)


# ---------------------------------------------------------------------------------------------
# stream: lines  (MmapSource.readlines / Slice on ARBITRARY bytes: a line ends at "\n" and only there)
# ---------------------------------------------------------------------------------------------
LINE_ATOMS = [b"\n", b"\n", b"\n", b"\r", b"\r\n", b"\r\r\n", b"\x0b", b"\x0c", b"\x1c", b"\x1d", b"\x1e", b"\xc2\x85",
              b"\xe2\x80\xa8", b"\xe2\x80\xa9", b"{}", b"a", b" ", b"\t", b'{"k":1}', "é日".encode("utf-8"), b"\x00", b"\n\r", b"\n\n"]


def gen_lines(ctx):
    rng = ctx.rng
    for _ in range(ctx.budget):
        n_atoms = rng.choice([1, 2, 3, 5, 8, 13, 30, rng.randrange(1, 80)])
        atoms = [rng.randrange(len(LINE_ATOMS)) for _ in range(n_atoms)]
        nlines = sum(LINE_ATOMS[a].count(b"\n") for a in atoms) + 1
        skip = rng.choice([0, 0, 1, 2, rng.randrange(0, nlines + 2)])
        reads = [rng.choice([0, 1, 1, 2, 3, 5, nlines, rng.randrange(0, nlines + 3)]) for _ in range(rng.choice([1, 2, 3, 4]))]
        yield {"atoms": atoms, "skip": skip, "reads": reads, "slice": [skip, rng.choice([nlines, 1, 2, rng.randrange(0, nlines + 3)])],
               "chunk": rng.choice([1, 2, 3, 7])}


def run_lines(ctx, case):
    from esrally.track import params
    from esrally.utils import io

    data = b"".join(LINE_ATOMS[a] for a in case["atoms"])
    exp = newline_lines(data)  # the expectation: derived from the bytes alone
    tmp = tempfile.mkdtemp(prefix="c03-")
    try:
        path = os.path.join(tmp, "data.json")
        with open(path, "wb") as fh:
            fh.write(data)
        # (1) readlines(k) call by call on one open source, after skip_lines
        src = io.MmapSource(path, "rt").open()
        calls = []
        try:
            io.skip_lines(path, src, case["skip"])
            pos = src.mm.tell()
            for k in case["reads"]:
                got = src.readlines(k)
                calls.append(([bytes(g) for g in got], src.mm.tell()))
        finally:
            src.close()
        at = min(case["skip"], len(exp))
        exp_pos = sum(len(l) for l in exp[:at])
        if pos != exp_pos:
            ctx.fail("skip-lands-elsewhere", "after skip_lines(n) the source is not at the start of line n", exp_pos, pos)
        mpos, line_no = None, at
        for k, (got, after) in zip(case["reads"], calls):
            m = ctx.model("bulklines", "lines", {"bytes": data.hex(), "skip": line_no, "read": k})
            if m["r"]["got"] != [g.hex() for g in got] or m["r"]["pos_after"] != after:
                ctx.diff("readlines", {"got": m["r"]["got"][:4], "pos_after": m["r"]["pos_after"]},
                         {"got": [g.hex() for g in got][:4], "pos_after": after, "k": k, "line": line_no})
            want = exp[line_no: line_no + k]
            if len(got) != len(want):
                ctx.fail("readlines-element-count", "readlines(k) does not return k elements (fewer only at the end of the file)",
                         {"k": k, "elements": len(want)}, {"elements": len(got)})
            elif got != want:
                ctx.fail("readlines-elements", "readlines(k) does not return the next k newline-terminated lines", [w.hex() for w in want][:4],
                         [g.hex() for g in got][:4])
            consumed = sum(len(w) for w in want)
            if after != exp_pos + consumed or b"".join(got) != data[exp_pos: exp_pos + consumed]:
                ctx.fail("readlines-consumed", "the elements of readlines(k) are not exactly the bytes consumed",
                         {"from": exp_pos, "to": exp_pos + consumed}, {"to": after, "bytes": len(b"".join(got))})
            exp_pos += consumed
            line_no += len(want)
            mpos = m["r"]
        if mpos is not None and (mpos["count"] != len(exp) or mpos["nl"] != data.count(b"\n") or mpos["ends_nl"] != data.endswith(b"\n")
                                 or mpos["text_count"] != text_mode_line_count(data)):
            ctx.diff("line counts", {k: mpos[k] for k in ("count", "nl", "ends_nl", "text_count")},
                     {"count": len(exp), "nl": data.count(b"\n"), "ends_nl": data.endswith(b"\n"), "text_count": text_mode_line_count(data)})
        # (2) the caller: Slice(offset, number_of_lines) read in chunks of `chunk` lines until StopIteration
        off, cnt = case["slice"]
        sl = params.Slice(io.MmapSource, off, cnt)
        sl.open(path, "rt", case["chunk"])
        out = []
        try:
            for chunk in sl:
                chunk = [bytes(c) for c in chunk]
                if len(chunk) > case["chunk"]:
                    ctx.fail("slice-chunk-over-size", "Slice hands out more lines than asked for", case["chunk"], len(chunk))
                out += chunk
                if len(out) > len(exp) + 5:
                    raise HarnessError("slice does not terminate")
        finally:
            sl.close()
        if out != exp[off: off + cnt]:
            ctx.fail("slice-range", "a Slice does not deliver lines [offset, offset+count) of the file", [w.hex() for w in exp[off: off + cnt]][:6],
                     [w.hex() for w in out][:6])
        bare = b"\r" in data.replace(b"\r\n", b"")
        ctx.count("lines:bare-cr" if bare else "lines:no-bare-cr")
        ctx.sig([bare, data.endswith(b"\n"), len(exp) > 1, case["skip"] >= len(exp), off + cnt > len(exp), mpos.get("count") == mpos.get("text_count") if mpos else None],
                nontrivial=len(exp) > 0)
    finally:
        shutil.rmtree(tmp, ignore_errors=True)


# ---------------------------------------------------------------------------------------------
# stream: malformed
# ---------------------------------------------------------------------------------------------
def gen_malformed(ctx):
    rng = ctx.rng
    for _ in range(ctx.budget):
        yield {"kind": rng.choice(["ds-conflicts", "partitions-change", "params-before-partition"]), "n": rng.randrange(1, 6),
               "conflicts": rng.choice(["sequential", "random"]), "docs": rng.randrange(1, 30), "seed": rng.randrange(1 << 30)}


def run_malformed(ctx, case):
    from esrally.track import params, track
    from esrally import exceptions

    tmp = tempfile.mkdtemp(prefix="c03-")
    try:
        lines = make_lines(0, "ascii", case["docs"], False, True, case["seed"])
        path = os.path.join(tmp, "d.json")
        with open(path, "wb") as fh:
            fh.write(b"".join(lines))
        ds = case["kind"] == "ds-conflicts"
        corp = [track.DocumentCorpus("c", documents=[track.Documents(source_format="bulk", document_file=path, number_of_documents=case["docs"],
                                                                      target_index=None if ds else "i", target_data_stream="d" if ds else None)])]
        p = {"bulk-size": 5}
        if ds:
            p["conflicts"] = case["conflicts"]
        src = params.BulkIndexParamSource(track.Track(name="t", corpora=corp), p)
        n = case["n"]
        mcfg = {"batch": 5, "bulk": 5, "conflicts": case["conflicts"] if ds else "none", "pct": "100/1", "looped": False,
                "prob": fs(25.0) if ds else None, "on_update": False, "recency": fs(0.0) if ds else None,
                "corpora": [[{"lines": len(lines), "docs": case["docs"], "meta": False, "ds": ds}]], "n": n}
        try:
            if case["kind"] == "partitions-change":
                src.partition(0, n)
                src.partition(1, n + 1)
                got = "no error"
            elif case["kind"] == "ds-conflicts":
                part = src.partition(0, n)
                try:
                    part.params()
                except StopIteration:  # client 0 has no share of so few documents: no reader is built, nothing to reject
                    pass
                got = "no error"
            else:
                got = "skipped"
        except exceptions.RallyAssertionError:
            got = "RallyAssertionError"
        except exceptions.RallyError:
            got = "RallyError"
        if case["kind"] == "partitions-change":
            # the model's partitionAll uses one total; emulate the second call through a second total
            exp = "RallyAssertionError"
            if got != exp:
                ctx.fail("partition-total-change", "changing total_partitions is not rejected", exp, got)
            ctx.sig([case["kind"], got])
            return
        if case["kind"] == "params-before-partition":
            ctx.sig([case["kind"]], nontrivial=False)
            return
        m = ctx.model("bulk", "worker", dict(mcfg, partitions=[0], calls=[0]))
        if m.get("err", "no error") != got:
            ctx.diff("malformed", m, got)
        ctx.sig([case["kind"], got])
    finally:
        shutil.rmtree(tmp, ignore_errors=True)



# ---------------------------------------------------------------------------------------------
# stream: race — Allocator -> worker assignment -> schedule_for -> partition -> ScheduleHandle
# ---------------------------------------------------------------------------------------------
def gen_race(ctx):
    rng = ctx.rng
    for _ in range(ctx.budget):
        corpora = []
        for _ in range(rng.choice([1, 1, 2])):
            files = []
            for _ in range(rng.choice([1, 1, 2])):
                meta = rng.random() < 0.3
                files.append({"docs": rng.choice([1, 2, 5, 9, 13, 24, 37, 40, 64, rng.randrange(0, 70)]), "meta": meta,
                              "style": rng.choice(["ascii", "utf8", "utf8", "padded"]), "nl": rng.random() < 0.8, "ds": False,
                              "type": rng.random() < 0.2})
            if all(f["docs"] == 0 for f in files):
                files[0]["docs"] = 7
            corpora.append(files)
        schedule = []
        n_bulk = 0
        ops = []   # the named bulk operations of the track; a task references one of them ("op"), several tasks may share one
        for _ in range(rng.choice([1, 1, 2, 3])):
            def bulk_task(op=None):
                if op is None and ops and rng.random() < 0.2:
                    op = rng.randrange(len(ops))      # reuse an operation defined earlier in the track
                if op is None:
                    bulk = rng.choice([1, 2, 3, 4, 5, 10])
                    pct = rng.choice([100.0] * 5 + [50.0, 25.0, 40.0, 10.0, 75.0, 7.0, 33.3, float(rng.randrange(1, 100))])
                    ops.append({"bulk": bulk, "batch": bulk * rng.choice([1, 1, 2]), "pct": fs(pct),
                                "corpus": rng.choice([None, None, rng.randrange(len(corpora))])})
                    op = len(ops) - 1
                return dict(ops[op], kind="bulk", clients=rng.choice([1, 2, 2, 3, 4, 5, 8]), op=op)

            def other_task():
                return {"kind": "other", "clients": rng.choice([1, 1, 2, 3]), "iterations": rng.choice([1, 2, 3])}

            if rng.random() < 0.65:
                tasks = [bulk_task() if rng.random() < 0.6 else other_task() for _ in range(rng.choice([1, 2, 2, 3]))]
                if rng.random() < 0.4:
                    # several tasks of the element built from ONE operation, with equal or different client counts
                    first = bulk_task()
                    same = rng.random() < 0.5
                    block = [first] + [dict(bulk_task(first["op"]), **({"clients": first["clients"]} if same else {})) for _ in range(rng.choice([1, 1, 2]))]
                    tasks = block + tasks[: rng.choice([0, 1, 1])]
                    rng.shuffle(tasks)
                total = sum(t["clients"] for t in tasks)
                r = rng.random()
                clients = None if r < 0.6 else (rng.randrange(1, total + 1) if r < 0.9 else total + rng.randrange(1, 3))
                schedule.append({"parallel": True, "clients": clients, "tasks": tasks})
            else:
                schedule.append({"parallel": False, "clients": None, "tasks": [bulk_task() if rng.random() < 0.8 else other_task()]})
            n_bulk += sum(1 for t in schedule[-1]["tasks"] if t["kind"] == "bulk")
        if n_bulk == 0:
            schedule.append({"parallel": True, "clients": None, "tasks": [
                {"kind": "bulk", "clients": 3, "bulk": 4, "batch": 4, "pct": "100/1", "corpus": None},
                {"kind": "other", "clients": rng.choice([1, 2]), "iterations": 1}]})
        hosts = [rng.choice([1, 1, 2, 3, 4, 8]) for _ in range(rng.choice([1, 1, 2]))]
        yield {"corpora": corpora, "schedule": schedule, "hosts": hosts, "seed": rng.randrange(1 << 30)}


_RUNNERS_REGISTERED = False


def bulk_operation(ops, t, name, rc, force_full):
    """the track.Operation object of a bulk task: tasks that reference the same named operation ("op") share ONE object, the way the
    track loader resolves operation names"""
    from esrally import track

    key = t.get("op")
    if key is not None and key in ops:
        return ops[key]
    pr = {"bulk-size": t["bulk"], "batch-size": t["batch"], "ingest-percentage": 100.0 if force_full else float(Fraction(t["pct"]))}
    if t["corpus"] is not None:
        pr["corpora"] = rc[t["corpus"]].name
    op = track.Operation(f"bulk-op{key}" if key is not None else name + "-op", track.OperationType.Bulk.to_hyphenated_string(), params=pr)
    if key is not None:
        ops[key] = op
    return op


def build_schedule(case, rc, force_full):
    """the real track.Task / track.Parallel objects of the case; returns (schedule, {task name: its description})"""
    from esrally import track

    sched, desc = [], {}
    k = 0
    ops = {}
    for el in case["schedule"]:
        tasks = []
        for t in el["tasks"]:
            name = f"task{k}"
            k += 1
            if t["kind"] == "bulk":
                tasks.append(track.Task(name, bulk_operation(ops, t, name, rc, force_full), clients=t["clients"]))
            else:
                op = track.Operation(name + "-op", track.OperationType.Sleep.to_hyphenated_string(), params={"duration": 0})
                tasks.append(track.Task(name, op, clients=t["clients"], iterations=t["iterations"]))
            desc[name] = t
        if el["parallel"]:
            sched.append(track.Parallel(tasks, clients=el["clients"]))
        else:
            sched.append(tasks[0])
    return sched, desc


def execute_schedule(rng, t, schedule, hosts, limit):
    """What Driver / Worker / AsyncIoAdapter.run do with a schedule, without actors and network: allocation matrix,
    worker assignment, per worker and step one parameter source per task, `schedule_for` per co-located client, then the
    ScheduleHandle generators of the co-located clients are advanced in a random interleaving until all are exhausted.
    Returns {(worker, column, task name): {"entries": [...], "events": [(client_index_in_task, params | None)], ...}}."""
    import asyncio

    from esrally import track
    from esrally.driver import driver

    allocator = driver.Allocator(schedule)
    allocations = allocator.allocations
    assignments = driver.calculate_worker_assignments([{"host": f"h{i}", "cores": c} for i, c in enumerate(hosts)], allocator.clients)
    groups = {}
    wno = -1

    async def drain(handles):
        gens = []
        for key, idx, h in handles:
            h.start()
            gens.append((key, idx, h()))
        active = list(range(len(gens)))
        style = rng.choice(["random", "random", "round-robin", "one-first"])
        steps = 0
        while active and steps < limit:
            if style == "round-robin":
                i = active[steps % len(active)]
            elif style == "one-first":
                i = active[0] if rng.random() < 0.9 else rng.choice(active)
            else:
                i = rng.choice(active)
            steps += 1
            key, idx, g = gens[i]
            try:
                item = await g.__anext__()
                groups[key]["events"].append((idx, item[4]))
            except StopAsyncIteration:
                groups[key]["events"].append((idx, None))
                active.remove(i)
            except ZeroDivisionError as ex:
                import traceback

                if traceback.extract_tb(ex.__traceback__)[-1].name != "percent_completed":
                    raise
                # asyncio.gather in AsyncIoAdapter.run fails: the whole step of this worker is over
                groups[key]["events"].append((idx, ZERO_DIV))
                groups[key]["crash"] = True
                for j in active:
                    await gens[j][2].aclose()
                return True
        for i in active:
            groups[gens[i][0]]["unfinished"] = True
            await gens[i][2].aclose()
        return False

    for assignment in assignments:
        for clients in assignment["workers"]:
            wno += 1
            if not clients:
                continue
            ca = driver.ClientAllocations()
            for client_id in clients:
                ca.add(client_id, allocations[client_id])
            for column in range(len(allocations[0])):
                if ca.is_joinpoint(column):
                    continue
                params_per_task = {}
                handles = []
                for client_id, ta in ca.tasks(column):
                    task = ta.task
                    if task not in params_per_task:
                        params_per_task[task] = track.operation_parameters(t, task)
                    key = (wno, column, task.name)
                    grp = groups.setdefault(key, {"entries": [], "events": [], "unfinished": False, "task": task})
                    grp["entries"].append([ta.client_index_in_task, task.clients, ta.total_clients, ta.global_client_index])
                    handles.append((key, ta.client_index_in_task, driver.schedule_for(ta, params_per_task[task])))
                if asyncio.run(drain(handles)):
                    return groups, len(assignments), wno + 1, True   # the worker reports the failure, the race is aborted
    return groups, len(assignments), wno + 1, False


def run_race(ctx, case):
    import collections
    import random

    from esrally import track
    from esrally.driver import runner

    global _RUNNERS_REGISTERED
    if not _RUNNERS_REGISTERED:
        runner.register_default_runners()
        _RUNNERS_REGISTERED = True
    tmp = tempfile.mkdtemp(prefix="c03-")
    try:
        files, targets, rc, mc = build_tree(tmp, case)
        t = track.Track(name="t", corpora=rc)
        rng = random.Random(case["seed"])
        total_docs = sum(d["docs"] for c in mc for d in c)
        limit = 3 * (total_docs + 5) + 50
        schedule, desc = build_schedule(case, rc, force_full=False)
        groups, _, nworkers, aborted = execute_schedule(rng, t, schedule, case["hosts"], limit)
        need_ref = any(d["kind"] == "bulk" and Fraction(d["pct"]) != 100 for d in desc.values())
        ref_groups = None
        if need_ref:
            ref_schedule, _ = build_schedule(case, rc, force_full=True)
            ref_groups, _, _, ref_aborted = execute_schedule(random.Random(case["seed"] + 1), t, ref_schedule, case["hosts"], limit)
            aborted = aborted or ref_aborted
        per_task_docs = collections.defaultdict(list)   # bulk task -> (action line or None, document line) over all its groups
        per_task_idx = collections.defaultdict(list)
        tags = set()
        any_bulk = False
        for key, grp in sorted(groups.items()):
            d = desc[key[2]]
            if d["kind"] != "bulk":
                continue
            # the corpora this task targets (BulkIndexParamSource.used_corpora: by name, without empty corpora)
            cis = [ci for ci in range(len(mc)) if (d["corpus"] is None or d["corpus"] == ci) and sum(x["docs"] for x in mc[ci]) > 0]
            mcorp = [[{k: x[k] for k in ("lines", "docs", "meta", "ds")} for x in mc[ci]] for ci in cis]
            remap, j = {}, 0
            for ci in cis:
                for x in mc[ci]:
                    remap[j] = x["fidx"]
                    j += 1
            mfiles = {j: files[f] for j, f in remap.items()}
            mtargets = {j: targets[f] for j, f in remap.items()}
            calls = [idx for idx, _ in grp["events"]]
            m = ctx.model("bulk", "group", {"batch": d["batch"], "bulk": d["bulk"], "conflicts": "none", "pct": d["pct"], "looped": False,
                                            "prob": None, "on_update": False, "recency": None, "corpora": mcorp,
                                            "entries": grp["entries"], "calls": calls})
            tags.update(m.get("tags", []))
            if grp.get("crash"):
                if m.get("err") != ZERO_DIV:
                    ctx.diff("group-error", m, ZERO_DIV)
                report_zero_division(ctx, {"group": list(key), "entries": grp["entries"], "calls": calls})
                continue
            if "err" in m:
                ctx.diff("group-error", m, "no error")
                continue
            if grp["unfinished"]:
                ctx.fail("does-not-stop", "clients still get bulks after 3x the corpus size", None, len(calls))
            real = [(idx, p) for idx, p in grp["events"] if p is not None]
            mout = m["r"]["out"]
            if [i for i, _ in real] != [x[0] for x in mout]:
                ctx.diff("who-gets-a-bulk", [x[0] for x in mout], [i for i, _ in real])
            per_task_idx[key[2]].append(sorted(e[0] for e in grp["entries"]))
            for k, (idx, p) in enumerate(real):
                any_bulk = True
                blines = split_body(p["body"])
                if k < len(mout):
                    mdocs, mitems = mout[k][1]
                    dd = None if mdocs == p["bulk-size"] else f"bulk {k}: bulk-size model {mdocs}, impl {p['bulk-size']}"
                    dd = dd or check_items(ctx, f"bulk {k}", mitems, blines, mfiles, mtargets)
                    if dd:
                        ctx.diff("bulk-body", dd, None)
                if p["bulk-size"] > d["bulk"] or p["bulk-size"] <= 0:
                    ctx.fail("bulk-over-size", "bulk-size outside (0, configured bulk size]", d["bulk"], p["bulk-size"])
                if len(blines) != 2 * p["bulk-size"]:
                    ctx.fail("pairing", "body is not bulk-size (action, document) pairs", 2 * p["bulk-size"], len(blines))
                    continue
                for q in range(0, len(blines), 2):
                    per_task_docs[key[2]].append((blines[q] if b'"_id"' in blines[q] else None, blines[q + 1]))
            # ingest percentage: exactly the first ceil(p%) of what the same group issues at 100 %
            pctf = Fraction(d["pct"])
            if pctf != 100 and not aborted:
                ref = [p for _, p in ref_groups.get(key, {"events": []})["events"] if p is not None]
                check_stop_count(ctx, ref, [p for _, p in real], pctf, True)
        # every bulk task with full ingestion: every document of every targeted file exactly once over all its groups
        for name, d in desc.items():
            if d["kind"] != "bulk" or Fraction(d["pct"]) != 100 or aborted:
                continue   # (an aborted race is reported above under its own class)
            expected = []
            for ci in range(len(mc)):
                if d["corpus"] is None or d["corpus"] == ci:
                    if sum(x["docs"] for x in mc[ci]) == 0:
                        continue
                    for x in mc[ci]:
                        ls = files[x["fidx"]]
                        expected += [(ls[2 * q], ls[2 * q + 1]) for q in range(x["docs"])] if x["meta"] else [(None, l) for l in ls]
            got = per_task_docs.get(name, [])
            if sorted(got, key=repr) != sorted(expected, key=repr):
                cg, ce = collections.Counter(got), collections.Counter(expected)
                ctx.fail("not-exactly-once", "multiset of (action, document) pairs over all bulks of a task differs from its corpora",
                         {"corpus_docs": len(expected)}, {"emitted": len(got), "missing": sum((ce - cg).values()), "surplus": sum((cg - ce).values()),
                                                          "task": name, "clients": d["clients"]})
        overcommitted = any(el["parallel"] and el["clients"] is not None and el["clients"] < sum(x["clients"] for x in el["tasks"]) for el in case["schedule"])
        ctx.count("race:workers=%d" % min(nworkers, 9))
        ctx.count("race:overcommitted" if overcommitted else "race:not-overcommitted")
        ctx.sig([sorted(tags), overcommitted, nworkers > 1, need_ref, len(case["schedule"]) > 1, aborted], nontrivial=any_bulk)
    finally:
        shutil.rmtree(tmp, ignore_errors=True)



# ---------------------------------------------------------------------------------------------
# stream: e2e — the real DriverActor / Driver / Worker.drive / AsyncIoAdapter / AsyncExecutor / bulk runner on the
# deterministic actor simulator (harness/sim_race.py), a recording _bulk endpoint at the far end
# ---------------------------------------------------------------------------------------------
def gen_e2e(ctx):
    rng = ctx.rng
    for case in gen_race(ctx):
        # capped parallel elements more often: the clients of one task then run in several allocation columns of a worker
        for el in case["schedule"]:
            if el["parallel"] and rng.random() < 0.5:
                total = sum(t["clients"] for t in el["tasks"])
                el["clients"] = rng.randrange(1, max(2, total))
        case["hostnames"] = rng.choice([["localhost"], ["localhost"], ["10.0.0.1", "10.0.0.2"]])
        case["cores"] = rng.choice([1, 2, 3, 4])
        case.pop("hosts", None)
        yield case


def e2e_track(case, rc, force_full):
    from esrally import track

    sched, desc = [], {}
    k = 0
    ops = {}
    for el in case["schedule"]:
        tasks = []
        for t in el["tasks"]:
            name = f"task{k}"
            k += 1
            if t["kind"] == "bulk":
                tasks.append(track.Task(name, bulk_operation(ops, t, name, rc, force_full), clients=t["clients"]))
            else:
                op = track.Operation(name, "sim", params={"task": name, "eternal": False, "weight": 1}, param_source="sim-source")
                tasks.append(track.Task(name, op, clients=t["clients"], iterations=t["iterations"]))
            desc[name] = t
        sched.append(track.Parallel(tasks, clients=el["clients"]) if el["parallel"] else tasks[0])
    ch = track.Challenge("default", default=True, schedule=sched)
    return track.Track(name="simtrack", description="sim", challenges=[ch], corpora=rc), desc


def e2e_run(case, trk, seed):
    """one simulated race; returns (groups, outcome). groups: (worker, column, task) -> {"entries": [...], "bulks": [log entries]}"""
    from harness import sim_race
    from esrally.driver import driver

    sc = {"track": trk, "hosts": case["hostnames"], "cores": case["cores"], "svc": {}, "bulk_svc": [0.0, 0.0078125, 0.015625],
          "schedule": []}
    sim = sim_race.Sim(sc, seed=seed)
    try:
        sim.start()
        done = lambda s_: any(type(m).__name__ in ("BenchmarkComplete", "BenchmarkFailure") for m in s_.rc.inbox) and not s_.channels
        res = sim.run(max_events=120000, max_vtime=2000.0, until=done)
        inbox = [type(m).__name__ for m in sim.rc.inbox]
        if "BenchmarkFailure" in inbox:
            f = [m for m in sim.rc.inbox if type(m).__name__ == "BenchmarkFailure"][0]
            outcome = ("failure", str(f.message)[-400:])
        elif res != "until":
            outcome = ("hang", inbox)
        else:
            outcome = ("complete", None)
        d = sim.actors["driver"].inst.driver
        groups = {}
        if d.allocations is not None:
            worker_of = {}
            wno = 0
            for assignment in driver.calculate_worker_assignments(d.load_driver_hosts, len(d.allocations)):
                for clients in assignment["workers"]:
                    for c in clients:
                        worker_of[c] = wno
                    wno += 1
            # the r-th allocation of a task on a client
            nth = {}
            for c, row in enumerate(d.allocations):
                seen = collections_counter()
                for column, x in enumerate(row):
                    if isinstance(x, driver.TaskAllocation):
                        seen[x.task.name] += 1
                        nth[(c, x.task.name, seen[x.task.name])] = (column, x)
                        key = (worker_of[c], column, x.task.name)
                        grp = groups.setdefault(key, {"entries": [], "bulks": []})
                        grp["entries"].append([x.client_index_in_task, x.task.clients, x.total_clients, x.global_client_index])
            for b in sim.bulk_log:
                column, x = nth[(b["client"], b["task"], b["run"])]
                groups[(worker_of[b["client"]], column, b["task"])]["bulks"].append((x.client_index_in_task, b))
        return groups, outcome
    finally:
        sim.shutdown()


def collections_counter():
    import collections

    return collections.Counter()


def run_e2e(ctx, case):
    import collections

    tmp = tempfile.mkdtemp(prefix="c03-")
    try:
        files, targets, rc, mc = build_tree(tmp, case)
        trk, desc = e2e_track(case, rc, force_full=False)
        groups, outcome = e2e_run(case, trk, case["seed"])
        if outcome[0] != "complete":
            ctx.fail("race-" + outcome[0], "a fault-free race with bulk tasks does not complete", "BenchmarkComplete", outcome[1])
            ctx.sig(["e2e", outcome[0]])
            return
        need_ref = any(d["kind"] == "bulk" and Fraction(d["pct"]) != 100 for d in desc.values())
        ref_groups = None
        if need_ref:
            ref_trk, _ = e2e_track(case, rc, force_full=True)
            ref_groups, ref_outcome = e2e_run(case, ref_trk, case["seed"] + 1)
            if ref_outcome[0] != "complete":
                ctx.fail("race-" + ref_outcome[0], "a fault-free race with bulk tasks does not complete", "BenchmarkComplete", ref_outcome[1])
                return
        per_task_docs = collections.defaultdict(list)
        columns_of = {}   # (worker, task) -> columns
        tags = set()
        any_bulk = False
        by_worker_task = collections.defaultdict(list)
        for key in sorted(groups):
            if desc[key[2]]["kind"] == "bulk":
                by_worker_task[(key[0], key[2])].append(key)
        for (wno, tname), keys in sorted(by_worker_task.items()):
            d = desc[tname]
            columns_of[(wno, tname)] = {k[1] for k in keys}
            cis = [ci for ci in range(len(mc)) if (d["corpus"] is None or d["corpus"] == ci) and sum(x["docs"] for x in mc[ci]) > 0]
            mcorp = [[{k: x[k] for k in ("lines", "docs", "meta", "ds")} for x in mc[ci]] for ci in cis]
            remap, j = {}, 0
            for ci in cis:
                for x in mc[ci]:
                    remap[j] = x["fidx"]
                    j += 1
            mfiles = {j: files[f] for j, f in remap.items()}
            mtargets = {j: targets[f] for j, f in remap.items()}
            # The model (runColumns) gives every column of the worker a new parameter source.  The sequence of bulks a group hands
            # out does not depend on who asks (ingest_percentage_prefix), so any complete call order will do for the model.
            mcols = []
            tid = {n: i for i, n in enumerate(desc)}
            same_op = [n for n, x in desc.items() if x["kind"] == "bulk" and (n == tname or (d.get("op") is not None and x.get("op") == d.get("op")))]
            for key in keys:
                grp = groups[key]
                idxs = sorted(e[0] for e in grp["entries"])
                # all allocations of the column that belong to tasks built from the same operation; the model picks its task
                rows = [[tid[n]] + e for n in same_op for e in groups.get((key[0], key[1], n), {"entries": []})["entries"]]
                mcols.append({"entries": rows, "calls": [idxs[i % len(idxs)] for i in range(len(grp["bulks"]) + 2 * len(idxs) + 2)]})
            m = ctx.model("bulk", "columns", {"batch": d["batch"], "bulk": d["bulk"], "conflicts": "none", "pct": d["pct"], "looped": False,
                                              "prob": None, "on_update": False, "recency": None, "corpora": mcorp, "columns": mcols,
                                              "task": tid[tname]})
            tags.update(m.get("tags", []))
            if "err" in m:
                ctx.diff("columns-error", m, "no error")
                continue
            for key, mres in zip(keys, m["r"]):
                grp = groups[key]
                mout = mres["out"]
                if len(mout) != len(grp["bulks"]):
                    ctx.diff("bulks-of-group", {"group": list(key), "bulks": len(mout)}, len(grp["bulks"]))
                for k, (idx, b) in enumerate(grp["bulks"]):
                    any_bulk = True
                    blines = split_body(b["body"])
                    if k < len(mout):
                        mdocs, mitems = mout[k][1]
                        dd = check_items(ctx, f"group {list(key)} bulk {k}", mitems, blines, mfiles, mtargets)
                        if dd:
                            ctx.diff("bulk-body", dd, None)
                    if len(blines) % 2 != 0 or len(blines) // 2 > d["bulk"] or not blines:
                        ctx.fail("bulk-over-size", "a bulk request is not 1..bulk-size (action, document) pairs", d["bulk"], len(blines))
                        continue
                    for q in range(0, len(blines), 2):
                        try:
                            aj = json.loads(blines[q])
                        except ValueError:
                            aj = None
                        if not (isinstance(aj, dict) and len(aj) == 1 and list(aj)[0] in ("index", "create", "update")):
                            ctx.fail("pairing", "line at an even position of the body is not an action-and-meta-data line", None, repr(blines[q]))
                        per_task_docs[tname].append((blines[q] if b'"_id"' in blines[q] else None, blines[q + 1]))
                pctf = Fraction(d["pct"])
                if pctf != 100:
                    ref = [{"body": b["body"]} for _, b in ref_groups.get(key, {"bulks": []})["bulks"]]
                    check_stop_count(ctx, ref, [{"body": b["body"]} for _, b in grp["bulks"]], pctf, True)
        for name, d in desc.items():
            if d["kind"] != "bulk" or Fraction(d["pct"]) != 100:
                continue
            expected = []
            for ci in range(len(mc)):
                if (d["corpus"] is None or d["corpus"] == ci) and sum(x["docs"] for x in mc[ci]) > 0:
                    for x in mc[ci]:
                        ls = files[x["fidx"]]
                        expected += [(ls[2 * q], ls[2 * q + 1]) for q in range(x["docs"])] if x["meta"] else [(None, l) for l in ls]
            got = per_task_docs.get(name, [])
            if sorted(got, key=repr) != sorted(expected, key=repr):
                cg, ce = collections.Counter(got), collections.Counter(expected)
                ctx.fail("not-exactly-once", "multiset of (action, document) pairs received by the _bulk endpoint for a task differs from its corpora",
                         {"corpus_docs": len(expected)}, {"received": len(got), "missing": sum((ce - cg).values()), "surplus": sum((cg - ce).values()),
                                                          "task": name, "clients": d["clients"]})
        multi_column = any(len(c) > 1 for c in columns_of.values())
        ctx.count("e2e:task-in-several-columns-of-a-worker" if multi_column else "e2e:one-column-per-task")
        shared = "operation-shared-in-column" in tags
        if shared:
            # equal / different client counts of the tasks that share an operation inside one element
            for el in case["schedule"]:
                by_op = collections.defaultdict(list)
                for x in el["tasks"]:
                    if x["kind"] == "bulk" and x.get("op") is not None:
                        by_op[x["op"]].append(x["clients"])
                for cl in by_op.values():
                    if len(cl) > 1:
                        ctx.count("e2e:shared-operation-equal-client-counts" if len(set(cl)) == 1 else "e2e:shared-operation-different-client-counts")
        ctx.count("e2e:operation-shared-by-tasks-of-one-column" if shared else "e2e:no-operation-shared-in-a-column")
        ctx.sig([sorted(tags), multi_column, len(case["hostnames"]), need_ref, len(case["schedule"]) > 1], nontrivial=any_bulk)
    finally:
        shutil.rmtree(tmp, ignore_errors=True)


STREAMS = [
    Stream("arith", gen_arith, run_arith, quick=8000, thorough=400000, shards=8),
    Stream("files", gen_files, run_files, quick=640, thorough=12000, shards=16),
    Stream("spec", gen_spec, run_spec, quick=480, thorough=10000, shards=16),
    Stream("race", gen_race, run_race, quick=480, thorough=10000, shards=16),
    Stream("e2e", gen_e2e, run_e2e, quick=240, thorough=4000, shards=16),
    Stream("reader", gen_reader, run_reader, quick=1600, thorough=60000, shards=8),
    Stream("gen", gen_gen, run_gen, quick=3000, thorough=100000, shards=4),
    Stream("lines", gen_lines, run_lines, quick=400, thorough=20000, shards=4),
    Stream("offsets", gen_offsets, run_offsets, quick=16, thorough=200, shards=8),
    Stream("malformed", gen_malformed, run_malformed, quick=40, thorough=400, shards=2),
]
