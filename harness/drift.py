"""Source drift against the tree the hand-written models were last validated on.

`anchors.lock.json` (committed, written by tools_anchorlock.py from the clean /repo) holds one digest per
definition of esrally/**/*.py (module body, class shells, functions and methods; AST without positions and
docstrings, so comments / formatting do not count) and one per resource file. On every run the check recomputes
the digests of the tree under test. A definition whose digest differs is *drift*: the correspondence of the
model to that definition has only been exercised on the locked version, so the framework explores harder
(more passes under further seeds, see framework.main) before it says that the property holds. Drift alone is
never a verdict - a harmless rewrite drifts too.
"""
from __future__ import annotations

import ast
import hashlib
import json
import os

LOCK = os.path.join(os.path.dirname(os.path.dirname(os.path.abspath(__file__))), "anchors.lock.json")
RESOURCE_EXT = (".json", ".ini", ".j2", ".toml", ".yml", ".yaml", ".txt")


def _h(s):
    return hashlib.sha256(s.encode("utf-8", "replace")).hexdigest()[:12]


def _strip_doc(body):
    if body and isinstance(body[0], ast.Expr) and isinstance(getattr(body[0], "value", None), ast.Constant) and isinstance(body[0].value.value, str):
        return body[1:]
    return body


def _dump(nodes):
    return ";".join(ast.dump(n, annotate_fields=False, include_attributes=False) for n in nodes)


def _defs(tree):
    out = {}

    def walk(body, prefix):
        rest = []
        for n in _strip_doc(body):
            if isinstance(n, (ast.FunctionDef, ast.AsyncFunctionDef)):
                sig = ("async " if isinstance(n, ast.AsyncFunctionDef) else "") + _dump(n.decorator_list) + "|" + _dump([n.args]) + "|" + _dump(_strip_doc(n.body))
                key = prefix + n.name
                k, i = key, 1
                while k in out:  # overloads / redefinitions (property setters)
                    i += 1
                    k = f"{key}#{i}"
                out[k] = _h(sig)
            elif isinstance(n, ast.ClassDef):
                walk(n.body, prefix + n.name + ".")
                rest.append(ast.dump(ast.ClassDef(name=n.name, bases=n.bases, keywords=n.keywords, body=[], decorator_list=n.decorator_list), annotate_fields=False, include_attributes=False))
            else:
                rest.append(ast.dump(n, annotate_fields=False, include_attributes=False))
        out[prefix + "<body>"] = _h(";".join(rest))

    walk(tree.body, "")
    return out


def digests(repo):
    root = os.path.join(repo, "esrally")
    res = {}
    for dp, dns, fns in os.walk(root):
        dns[:] = sorted(d for d in dns if d != "__pycache__")
        for fn in sorted(fns):
            p = os.path.join(dp, fn)
            rel = os.path.relpath(p, repo)
            try:
                if fn.endswith(".py"):
                    res[rel] = _defs(ast.parse(open(p, encoding="utf-8", errors="replace").read()))
                elif fn.endswith(RESOURCE_EXT):
                    res[rel] = {"<file>": hashlib.sha256(open(p, "rb").read()).hexdigest()[:12]}
            except SyntaxError:
                res[rel] = {"<unparsable>": "1"}
    return res


def drift(repo):
    """-> (list of 'file:definition' whose digest differs from the lock, lock commit) ; ([], None) without a lock"""
    if not os.path.exists(LOCK):
        return [], None
    lock = json.load(open(LOCK))
    now = digests(repo)
    changed = []
    for f in sorted(set(lock["files"]) | set(now)):
        a, b = lock["files"].get(f), now.get(f)
        if a is None or b is None:
            changed.append(f + ":" + ("<file added>" if a is None else "<file removed>"))
            continue
        for d in sorted(set(a) | set(b)):
            if a.get(d) != b.get(d):
                changed.append(f"{f}:{d}")
    return changed, lock.get("repo_commit")
