"""C16 — runner.Retry retries exactly as configured; which operation types are wrapped in Retry."""
import ast
import itertools
import os
import re
from fractions import Fraction

from harness.framework import Stream, HarnessError, LEAN_DIR

PROPERTY = "C16"
RULE = (
    "scripts = sequences of delegate outcomes over 10 classes (dict success / dict failure / non-dict / socket.timeout / ConnectionError / "
    "ConnectionTimeout / ApiError 408 / other ApiError / other TransportError / other exception), each realised by real exception classes and "
    "several concrete values, x retry parameters (present/absent keys, constructor default); a case is non-trivial when at least one "
    "outcome is consumed; signature = (model (class,step) tags, result kind, parameter shape). product_content: the attempts' products are raw "
    "(library exception class x HTTP status x wording = Elasticsearch error type / message / body shape, dict "
    "results with every truthiness of success) and are classified by the model from isinstance facts; complete over wording x status x kind of "
    "earlier retried attempt, plus random scripts"
)
TRUSTED = [
    "the scripted delegate stands for a runner (that only the class of what it returns/raises matters to Retry.__call__ is checked by product_content)",
    "product_content: isinstance facts of the exception objects are taken from CPython / the installed elasticsearch and elastic_transport classes",
    "asyncio.sleep is replaced by a recorder (durations observed exactly, no wall-clock waiting)",
    "truthiness of parameter values is taken from CPython (bool(x)) before the model is asked",
]
ASSUMPTIONS = [
    "retries is an int; scripts are shorter than sys.maxsize",
    "elasticsearch-py 8 / elastic_transport 8 exception hierarchy (ConnectionTimeout is not a ConnectionError, ApiError is not a TransportError)",
]

KINDS = ["dictOk", "dictFail", "nonDict", "sockTimeout", "connError", "connTimeout", "api408", "apiOther", "transportOther", "otherExc"]
VALUE_KINDS = {"dictOk", "dictFail", "nonDict"}
TIMEOUTISH = {"sockTimeout", "connError", "connTimeout", "api408"}
NVARIANTS = 6


class ScriptExhausted(BaseException):
    """raised by the scripted delegate when it is invoked more often than the script is long
    (BaseException: passes through every `except` clause of Retry.__call__)"""


def _meta(status, shape=0):
    import elastic_transport

    headers = [
        elastic_transport.HttpHeaders(),
        elastic_transport.HttpHeaders({"content-type": "text/html; charset=UTF-8", "retry-after": "1", "x-elastic-product": "Elasticsearch"}),
    ][shape % 2]
    return elastic_transport.ApiResponseMeta(
        status=status,
        http_version=["1.1", "2"][(shape // 2) % 2],
        headers=headers,
        duration=[0.0, 0.25][shape % 2],
        node=elastic_transport.NodeConfig(scheme="http", host="localhost", port=9200),
    )


def _api_body(shape, status, marker):
    """response body of an API error in the shapes elasticsearch-py hands over: parsed JSON of any form, raw text / HTML / bytes"""
    shapes = [
        None,
        {},
        {"error": {"type": marker, "reason": f"reason for {marker}", "root_cause": [{"type": marker, "reason": "r"}]}, "status": status},
        {"error": f"string {marker}", "status": status},
        f"upstream request timeout ({marker})",
        f"<html><body><center><h1>{status}</h1></center><hr>{marker}</body></html>",
        f"bytes {marker}".encode(),
        ["list", marker],
        {"error": {"type": marker}},
        {"message": marker, "statusCode": status},
        {"error": None},
        "",
    ]
    return shapes[shape % len(shapes)]


def _api(cls, message, status, variant, idx):
    shape = variant * 5 + idx  # rotates through all body / header shapes over the script positions
    return cls(message, _meta(status, shape), _api_body(shape, status, message or "m"))


class _Opaque:
    def __init__(self, text):
        self.text = text

    def __str__(self):
        return self.text


def make_outcome(kind, variant, idx):
    """-> (is_value, object). Real classes of elasticsearch / elastic_transport."""
    import socket
    import asyncio
    import elasticsearch
    import elastic_transport
    from esrally import exceptions

    v = variant % NVARIANTS
    if kind == "dictOk":
        return True, [
            {"weight": 1, "unit": "ops", "success": True, "id": idx},
            {"weight": 1, "unit": "ops", "id": idx},
            {"id": idx},
            {"success": 1, "id": idx},
            {"success": "yes", "id": idx},
            {"success": [0], "id": idx},
        ][v]
    if kind == "dictFail":
        return True, [
            {"weight": 1, "unit": "ops", "success": False, "id": idx},
            {"success": 0, "id": idx},
            {"success": None, "id": idx},
            {"success": "", "id": idx},
            {"success": False, "error-type": "api", "id": idx},
            {"success": [], "id": idx},
        ][v]
    if kind == "nonDict":
        return True, [(1, "ops", idx), None, idx + 1000, [idx], f"s{idx}", 0.5][v]
    if kind == "sockTimeout":
        return False, [socket.timeout("timed out"), TimeoutError("t"), asyncio.TimeoutError(), socket.timeout(), TimeoutError(), socket.timeout("x")][v]
    if kind == "connError":
        return False, [
            elasticsearch.exceptions.ConnectionError(message="no route to host"),
            elasticsearch.ConnectionError(_Opaque("refused")),
            elastic_transport.ConnectionError(OSError(104, "reset"), errors=(OSError(104, "reset"),)),
            elastic_transport.TlsError("tls"),
            elasticsearch.exceptions.SSLError("", errors=(ValueError("a"), ValueError("b"))),
            elasticsearch.exceptions.ConnectionError("x", errors=(OSError("e"),)),
        ][v]
    if kind == "connTimeout":
        return False, [
            elasticsearch.exceptions.ConnectionTimeout(message="timed out"),
            elasticsearch.ConnectionTimeout(""),
            elastic_transport.ConnectionTimeout(_Opaque("t2")),
            elasticsearch.exceptions.ConnectionTimeout("t3", errors=(TimeoutError(),)),
            elasticsearch.ConnectionTimeout(TimeoutError("t4"), errors=(TimeoutError("t4"), OSError("o"))),
            elastic_transport.ConnectionTimeout("t5\nline two"),
        ][v]
    if kind == "api408":
        return False, [
            _api(elasticsearch.ApiError, "request_timeout", 408, v, idx),
            _api(elasticsearch.ApiError, "408", 408, v, idx),
            _api(elasticsearch.ApiError, "rt", 408, v, idx),
            _api(elasticsearch.exceptions.ApiError, "request_timeout", 408, v, idx),
            _api(elasticsearch.exceptions.UnsupportedProductError, "t", 408, v, idx),
            _api(elasticsearch.ApiError, "", 408, v, idx),
        ][v]
    if kind == "apiOther":
        return False, [
            _api(elasticsearch.NotFoundError, "index_not_found_exception", 404, v, idx),
            _api(elasticsearch.BadRequestError, "bad", 400, v, idx),
            _api(elasticsearch.ConflictError, "conflict", 409, v, idx),
            _api(elasticsearch.ApiError, "internal", [500, 502, 503, 504][idx % 4], v, idx),
            _api(elasticsearch.ApiError, "too_many_requests", 429, v, idx),
            _api(elasticsearch.AuthenticationException, "auth", 401, v, idx),
        ][v]
    if kind == "transportOther":
        errs = [(), (ValueError("v"),), (OSError(5, "io"), TypeError("t"))][idx % 3]
        return False, [
            elastic_transport.SerializationError("cannot serialize", errors=errs),
            elastic_transport.SniffingError(_Opaque("sniff"), errors=errs),
            elastic_transport.TransportError("generic", errors=errs),
            elasticsearch.exceptions.SerializationError(ValueError("s2"), errors=errs),
            elasticsearch.exceptions.TransportError("", errors=errs),
            elastic_transport.TransportError("g3 %s {}", errors=errs),
        ][v]
    if kind == "otherExc":
        return False, [
            KeyError("k"),
            exceptions.RallyError("rally"),
            ValueError("v"),
            ConnectionRefusedError("builtin connection error is not the ES one"),
            exceptions.RallyTaskAssertionError("assert"),
            OSError("os"),
        ][v]
    raise HarnessError("unknown kind " + kind)


# ---------------------------------------------------------------------------------------------
# running the real code
# ---------------------------------------------------------------------------------------------
_LOOP = None


def _loop():
    global _LOOP
    if _LOOP is None:
        import asyncio

        _LOOP = asyncio.new_event_loop()
    return _LOOP


def wire_params(pw):
    """case parameters -> the params dict handed to the runner (absent keys stay absent)"""
    params = {}
    names = {"until": "retry-until-success", "retries": "retries", "on_error": "retry-on-error", "wait": "retry-wait-period", "on_timeout": "retry-on-timeout"}
    for k, name in names.items():
        if pw.get(k) is not None:
            v = pw[k]
            if k == "wait":
                v = _wait_value(v)
            params[name] = v
    return params


def _wait_value(w):
    # ["i", 3] int, ["f", "0.5"] float
    return int(w[1]) if w[0] == "i" else float(w[1])


def model_args(pw, outs):
    a = {"ctor": bool(pw.get("ctor", False)), "outs": [o[0] for o in outs]}
    for k in ("until", "on_error", "on_timeout"):
        a[k] = None if pw.get(k) is None else bool(pw[k])
    a["retries"] = pw.get("retries")
    if pw.get("wait") is None:
        a["wait"] = None
    else:
        f = Fraction(_wait_value(pw["wait"]))
        a["wait"] = f"{f.numerator}/{f.denominator}"
    return a


def drive(call, outs, objs=None):
    """runs `await call(delegate_or_none, es, params)` style thunk against the script.
    `call(script_fn)` must return a coroutine; script_fn is an async callable (es, params).
    -> (res, trace)   res as the model prints it, trace = ["c", "n/d", ...]"""
    import asyncio

    if objs is None:
        objs = [make_outcome(k, v, i) for i, (k, v) in enumerate(outs)]
    trace = []
    state = {"n": 0}

    async def script(*_args, **_kw):
        i = state["n"]
        state["n"] += 1
        trace.append("c")
        if i >= len(objs):
            raise ScriptExhausted()
        is_value, o = objs[i]
        if is_value:
            return o
        raise o

    async def fake_sleep(d, result=None):
        f = Fraction(d)
        trace.append(f"{f.numerator}/{f.denominator}")
        return result

    orig = asyncio.sleep
    asyncio.sleep = fake_sleep
    try:
        try:
            ret = _loop().run_until_complete(call(script))
            kind = "returned"
            payload = ret
        except ScriptExhausted:
            kind, payload = "pending", None
        except Exception as e:  # pylint: disable=broad-except
            kind, payload = "raised", e
    finally:
        asyncio.sleep = orig
    if kind == "pending":
        # the last "c" is the invocation that found the script empty
        if not trace or trace[-1] != "c":
            raise HarnessError("script exhaustion without a call")
        return ["pending"], trace[:-1], None
    idx = [i for i, (_, o) in enumerate(objs) if o is payload]
    n = trace.count("c")
    if kind == "returned":
        if n == 0 and payload is None:
            return ["fell"], trace, payload
        if n >= 1 and n <= len(objs) and objs[n - 1][1] is payload and objs[n - 1][0]:
            return ["returned", n - 1], trace, payload
        if idx and objs[idx[0]][0]:
            return ["returned", idx[0]], trace, payload
        return ["returned-foreign", repr(payload)[:80]], trace, payload
    if n >= 1 and n <= len(objs) and objs[n - 1][1] is payload and not objs[n - 1][0]:
        return ["raised", n - 1], trace, payload
    if idx and not objs[idx[0]][0]:
        return ["raised", idx[0]], trace, payload
    return ["raised-foreign", type(payload).__name__, str(payload)[:80]], trace, payload


def impl_retry(pw, outs):
    from esrally.driver import runner

    params = wire_params(pw)
    es = object()

    def call(script):
        async def delegate(e, p):
            if e is not es or p is not params:
                raise HarnessError("delegate called with foreign arguments")
            return await script()

        if pw.get("ctor") is None:
            r = runner.Retry(delegate)
        else:
            r = runner.Retry(delegate, retry_until_success=pw["ctor"])
        return r(es, params)

    res, trace, _ = drive(call, outs)
    return res, trace


# ---------------------------------------------------------------------------------------------
# direct oracle: the property statement, independent of the Lean model
# ---------------------------------------------------------------------------------------------
def oracle(pw, outs, ctor_default=False):
    """-> (res, trace) the property prescribes, or None when outside its domain (retries < 0)"""
    ctor = pw.get("ctor")
    ctor = ctor_default if ctor is None else ctor
    until = pw.get("until")
    until = ctor if until is None else until
    retries = pw.get("retries")
    retries = 0 if retries is None else retries
    if not until and retries < 0:
        return None
    max_attempts = None if until else retries + 1
    on_error = True if until else bool(pw.get("on_error") if pw.get("on_error") is not None else False)
    on_timeout = bool(pw.get("on_timeout") if pw.get("on_timeout") is not None else True)
    wait = Fraction(1, 2) if pw.get("wait") is None else Fraction(_wait_value(pw["wait"]))
    w = f"{wait.numerator}/{wait.denominator}"
    trace = []
    for i, (k, _) in enumerate(outs):
        trace.append("c")
        last = max_attempts is not None and i + 1 == max_attempts
        retryable = (k in TIMEOUTISH and on_timeout) or (k == "dictFail" and on_error)
        if last or not retryable:
            return [("returned" if k in VALUE_KINDS else "raised"), i], trace
        trace.append(w)
    return ["pending"], trace


def classify_failure(pw, outs, exp, obs):
    """input class of an oracle failure"""
    ncalls = obs[1].count("c") + (1 if obs[0] == ["pending"] else 0)
    on_timeout = pw.get("on_timeout") is None or bool(pw.get("on_timeout"))
    first = next((j for j, (k, _) in enumerate(outs) if k == "transportOther"), None)
    if first is not None and on_timeout and ncalls > first + 1 and exp[1].count("c") == first + 1:
        # the delegate was invoked again after an other transport error that should have propagated:
        # the defect fixed by 9eaa174 (trailing `except TransportError` swallowing it and retrying without a pause)
        return "other-transport-error-retried-without-wait"
    return "retry-semantics"


# ---------------------------------------------------------------------------------------------
# generators
# ---------------------------------------------------------------------------------------------
WAITS = [None, None, ["f", "0.5"], ["f", "0.01"], ["i", 2], ["f", "1.5"], ["i", 0], ["f", "0.1"], ["f", "0.0"], ["f", "3.25"]]


def gen_params(rng, n):
    pw = {}
    pw["ctor"] = rng.choice([None, False, False, True])
    pw["until"] = rng.choice([None, None, None, False, True])
    r = rng.random()
    if r < 0.15:
        pw["retries"] = None
    elif r < 0.19:
        pw["retries"] = -rng.randrange(1, 3)
    elif r < 0.5:
        pw["retries"] = max(0, n - 1 + rng.choice([-2, -1, 0, 0, 1]))
    else:
        pw["retries"] = rng.choice([0, 1, 2, 3, 5, 8, 12])
    pw["on_error"] = rng.choice([None, True, True, False])
    pw["on_timeout"] = rng.choice([None, None, True, False])
    pw["wait"] = rng.choice(WAITS)
    if rng.random() < 0.05:
        # truthy / falsy non-bool values
        pw["on_error"] = rng.choice([0, 1, "", "yes"])
    if rng.random() < 0.05:
        pw["on_timeout"] = rng.choice([0, 1, "", "no"])
    return pw


def gen_script(rng, n):
    mode = rng.random()
    if mode < 0.5:
        pool = ["dictFail", "sockTimeout", "connError", "connTimeout", "api408", "transportOther"] * 3 + KINDS
    elif mode < 0.8:
        pool = ["dictFail", "sockTimeout", "connError", "connTimeout", "api408"]
    else:
        pool = KINDS
    outs = [[rng.choice(pool), rng.randrange(NVARIANTS)] for _ in range(n)]
    if n and rng.random() < 0.5:
        outs[-1] = [rng.choice(["dictOk", "nonDict", "dictOk", "apiOther", "otherExc"]), rng.randrange(NVARIANTS)]
    return outs


def gen_random(ctx):
    rng = ctx.rng
    for _ in range(ctx.budget):
        n = rng.choice([0, 1, 1, 2, 2, 3, 3, 4, 5, 6, 7, 8, 10, 12])
        yield {"p": gen_params(rng, n), "outs": gen_script(rng, n)}


def param_grid(L):
    grid = []
    for until, on_timeout, on_error in itertools.product([False, True], [None, False], [None, True]):
        for retries in ([None, 1, L - 1, L] if not until else [None]):
            grid.append({"ctor": None, "until": until if until else None, "retries": retries, "on_error": on_error, "on_timeout": on_timeout, "wait": None})
    # constructor default and explicit override
    grid.append({"ctor": True, "until": None, "retries": 1, "on_error": None, "on_timeout": None, "wait": ["i", 2]})
    grid.append({"ctor": True, "until": False, "retries": L, "on_error": True, "on_timeout": True, "wait": ["f", "0.25"]})
    return grid


def gen_exhaustive(ctx):
    """every outcome sequence of length <= L over the 10 classes x the parameter grid
    (quick: L = 3 complete; thorough: L = 5 complete, sharded)"""
    if ctx.tier == "thorough":
        L = 5
        grid = param_grid(L)
        i = 0
        for n in range(0, L + 1):
            for seq in itertools.product(KINDS, repeat=n):
                i += 1
                if i % ctx.nshards != ctx.shard:
                    continue
                outs = [[k, (i + j) % NVARIANTS] for j, k in enumerate(seq)]
                for pw in grid:
                    yield {"p": pw, "outs": outs}
        ctx.notes["exhaustive"] = f"all outcome sequences of length <= {L} over {len(KINDS)} classes x {len(grid)} parameter combinations"
    else:
        L = 3
        grid = param_grid(L)
        seqs = [s for n in range(0, L + 1) for s in itertools.product(KINDS, repeat=n)]
        for i, seq in enumerate(seqs):
            if i % ctx.nshards != ctx.shard:
                continue
            outs = [[k, (i + j) % NVARIANTS] for j, k in enumerate(seq)]
            for pw in grid:
                yield {"p": pw, "outs": outs}
        ctx.notes["scope"] = f"all {len(seqs)} outcome sequences of length <= {L} x all {len(grid)} parameter combinations"


def _shape(pw):
    return [k for k in ("ctor", "until", "retries", "on_error", "on_timeout", "wait") if pw.get(k) is not None]


def run_retry(ctx, case):
    pw, outs = case["p"], case["outs"]
    m = ctx.model("retry", "run", model_args(pw, outs))
    mr = m["r"]
    res, trace = impl_retry(pw, outs)
    if [mr["res"], mr["trace"]] != [res, trace]:
        ctx.diff("Retry.__call__", {"res": mr["res"], "trace": mr["trace"]}, {"res": res, "trace": trace})
    exp = oracle(pw, outs)
    if exp is not None and [exp[0], exp[1]] != [res, trace]:
        ctx.fail(classify_failure(pw, outs, exp, (res, trace)), "Retry does not retry as the property prescribes", {"res": exp[0], "trace": exp[1]}, {"res": res, "trace": trace})
    ctx.count("len:%d" % len(outs))
    ctx.count("res:" + res[0])
    if exp is None:
        ctx.count("outside-domain(retries<0)")
    ctx.sig([sorted(m.get("tags", [])), res[0], _shape(pw)], nontrivial=trace.count("c") > 0)


# ---------------------------------------------------------------------------------------------
# which operation types are wrapped: AST table + documentation, checked behaviourally
# ---------------------------------------------------------------------------------------------
def documented_retryable(repo_root):
    """docs/track.rst: section title (operation type) -> is marked retryable"""
    lines = open(os.path.join(repo_root, "docs", "track.rst"), encoding="utf-8").read().split("\n")
    secs = []
    for i in range(1, len(lines)):
        if re.fullmatch(r"~{3,}", lines[i]) and lines[i - 1].strip() and len(lines[i]) >= len(lines[i - 1].strip()):
            secs.append((i - 1, lines[i - 1].strip()))
    doc = {}
    for k, (ln, title) in enumerate(secs):
        end = secs[k + 1][0] if k + 1 < len(secs) else len(lines)
        body = "\n".join(lines[ln:end])
        doc[title] = ":ref:`retryable <track_operations>`" in body
    return doc


def registration_table(repo_root):
    """AST of runner.register_default_runners -> {OperationType member: (inner class, wrapped, until_success)}"""
    path = os.path.join(repo_root, "esrally", "driver", "runner.py")
    tree = ast.parse(open(path, encoding="utf-8").read())
    fn = [n for n in tree.body if isinstance(n, ast.FunctionDef) and n.name == "register_default_runners"]
    if len(fn) != 1:
        raise ValueError("register_default_runners not found")
    table = {}
    for st in fn[0].body:
        if isinstance(st, ast.Expr) and isinstance(st.value, ast.Constant):
            continue  # docstring
        ok = isinstance(st, ast.Expr) and isinstance(st.value, ast.Call) and isinstance(st.value.func, ast.Name) and st.value.func.id == "register_runner"
        if not ok:
            raise ValueError(f"unrecognised statement in register_default_runners at line {st.lineno}")
        call = st.value
        if len(call.args) != 2:
            raise ValueError(f"register_runner call shape at line {st.lineno}")
        op = call.args[0]
        if not (isinstance(op, ast.Attribute) and isinstance(op.value, ast.Attribute) and op.value.attr == "OperationType"):
            raise ValueError(f"operation type expression at line {st.lineno}")
        member = op.attr
        r = call.args[1]
        if not (isinstance(r, ast.Call) and isinstance(r.func, ast.Name)):
            raise ValueError(f"runner expression at line {st.lineno}")
        if r.func.id == "Retry":
            if len(r.args) != 1 or not (isinstance(r.args[0], ast.Call) and isinstance(r.args[0].func, ast.Name)):
                raise ValueError(f"Retry(...) shape at line {st.lineno}")
            until = False
            for kw in r.keywords:
                if kw.arg == "retry_until_success" and isinstance(kw.value, ast.Constant) and isinstance(kw.value.value, bool):
                    until = kw.value.value
                else:
                    raise ValueError(f"Retry keyword at line {st.lineno}")
            row = (r.args[0].func.id, True, until)
        else:
            row = (r.func.id, False, False)
        if member in table:
            raise ValueError(f"{member} registered twice")
        table[member] = row
    return table


def wrapped_rows(repo_root):
    """rows (hyphenated op type, registered, wrapped, until_success, has doc section, documented retryable), sorted"""
    from esrally import track

    reg = registration_table(repo_root)
    doc = documented_retryable(repo_root)
    members = {m.name: m.to_hyphenated_string() for m in track.OperationType}
    for member in reg:
        if member not in members:
            raise ValueError(f"register_default_runners registers unknown OperationType.{member}")
    rows = []
    for name, hy in sorted(members.items(), key=lambda kv: kv[1]):
        inner, wrapped, until = reg.get(name, (None, False, False))
        rows.append({"op": hy, "registered": name in reg, "wrapped": wrapped, "until": until, "has_doc": hy in doc, "doc_retryable": bool(doc.get(hy, False))})
    return rows


def _b(x):
    return "true" if x else "false"


def translate(repo_root):
    rows = wrapped_rows(repo_root)
    out = [
        "/- GENERATED by harness/c16.py translate() from esrally/driver/runner.py (register_default_runners),",
        "   esrally/track (OperationType) and docs/track.rst — do not edit -/",
        "namespace Gen.RetryWrapped",
        "",
        "structure Row where",
        "  op : String",
        "  registered : Bool          -- register_default_runners registers a runner for it",
        "  wrapped : Bool             -- … as Retry(X(...), …)",
        "  untilSuccess : Bool        -- … with retry_until_success=True",
        "  hasDoc : Bool              -- docs/track.rst has a section for the operation type",
        "  docRetryable : Bool        -- … which says the operation is retryable",
        "deriving Repr, DecidableEq",
        "",
        "def table : List Row := [",
    ]
    body = []
    for r in rows:
        body.append(f'  ⟨"{r["op"]}", {_b(r["registered"])}, {_b(r["wrapped"])}, {_b(r["until"])}, {_b(r["has_doc"])}, {_b(r["doc_retryable"])}⟩')
    out.append(",\n".join(body))
    out += ["]", "", "end Gen.RetryWrapped", ""]
    text = "\n".join(out)
    path = os.path.join(LEAN_DIR, "RallyGen", "RetryWrapped.lean")
    os.makedirs(os.path.dirname(path), exist_ok=True)
    if not os.path.exists(path) or open(path, encoding="utf-8").read() != text:
        with open(path, "w", encoding="utf-8") as f:
            f.write(text)
    return {"rows": len(rows), "wrapped": sum(r["wrapped"] for r in rows), "until_success": [r["op"] for r in rows if r["until"]],
            "documented_retryable": sum(r["doc_retryable"] for r in rows)}


_REG = {}


def behavioural_rows(repo_root):
    """fallback when the AST of register_default_runners is not of the recognised shape: the same rows read off the
    registered runner objects (is there a Retry in the delegate chain, its retry_until_success) + docs/track.rst"""
    from esrally import track, exceptions
    from esrally.driver import runner

    doc = documented_retryable(repo_root)
    rows = []
    for m in sorted(track.OperationType, key=lambda m: m.to_hyphenated_string()):
        hy = m.to_hyphenated_string()
        try:
            x = runner.runner_for(hy)
        except exceptions.RallyError:
            x = None
        registered, found = x is not None, None
        while x is not None:
            if isinstance(x, runner.Retry) and found is None:
                found = x
            x = getattr(x, "delegate", None)
        rows.append({"op": hy, "registered": registered, "wrapped": found is not None, "until": bool(getattr(found, "retry_until_success", False)),
                     "has_doc": hy in doc, "doc_retryable": bool(doc.get(hy, False))})
    return rows


def _registered(ctx=None):
    if not _REG:
        from esrally.driver import runner
        from harness.framework import REPO

        runner.register_default_runners()
        try:
            _REG["rows"] = {r["op"]: r for r in wrapped_rows(REPO)}
            _REG["ast_error"] = None
        except ValueError as e:
            # register_default_runners no longer has the shape the translator recognises: a broken obligation (reported as a
            # correspondence difference), but the behavioural streams and their oracles go on with the rows read off the objects
            _REG["rows"] = {r["op"]: r for r in behavioural_rows(REPO)}
            _REG["ast_error"] = str(e)
    if ctx is not None and _REG["ast_error"]:
        ctx.diff("registration table", "recognised shape", _REG["ast_error"])
    return _REG["rows"]


REG_SCRIPTS = [
    ["connTimeout", "dictFail", "dictOk"],
    ["dictFail", "dictFail", "dictFail", "dictFail"],
    ["connError", "sockTimeout", "api408", "nonDict"],
    ["apiOther", "dictOk"],
    ["dictFail", "apiOther"],
    ["connError", "connError", "connError"],
    ["dictOk"],
    ["otherExc"],
    ["transportOther", "dictOk"],
    ["connError", "transportOther", "dictOk"],
    [],
]


def gen_registered(ctx):
    """every operation type of track.OperationType x fixed scripts x sampled parameters"""
    from esrally import track

    ops = sorted(m.to_hyphenated_string() for m in track.OperationType)
    rng = ctx.rng
    n = 0
    for i, op in enumerate(ops):
        if i % ctx.nshards != ctx.shard:
            continue
        for j, s in enumerate(REG_SCRIPTS):
            outs = [[k, (i + j + t) % NVARIANTS] for t, k in enumerate(s)]
            for pw in (
                {"retries": 3, "on_error": True},
                {"retries": 1, "on_error": True, "wait": ["f", "0.25"]},
                {},
                {"until": False, "retries": 2},
                {"until": True, "wait": ["i", 1]},
            ):
                yield {"op": op, "p": pw, "outs": outs}
                n += 1
        for _ in range(max(0, ctx.budget // max(1, len(ops) // ctx.nshards) - len(REG_SCRIPTS) * 5)):
            k = rng.choice([1, 2, 3, 4, 6])
            pw = gen_params(rng, k)
            pw["ctor"] = None
            yield {"op": op, "p": pw, "outs": gen_script(rng, k)}


def run_registered(ctx, case):
    from esrally.driver import runner
    from esrally import exceptions

    rows = _registered(ctx)
    op, pw, outs = case["op"], case["p"], case["outs"]
    row = rows.get(op)
    if row is None:
        raise HarnessError(f"unknown operation type {op}")
    try:
        registered = runner.runner_for(op)
    except exceptions.RallyError:
        registered = None
    if (registered is not None) != row["registered"]:
        ctx.diff("registered", row["registered"], registered is not None)
    if registered is None:
        ctx.sig(["unregistered"], nontrivial=False)
        return
    inner = runner.unwrap(registered)
    cls = type(inner)
    params = wire_params(pw)
    default_es = object()
    es = {"default": default_es, "other": object()}

    def call(script):
        async def patched(self, e, p):
            if p is not params:
                raise HarnessError("innermost runner called with foreign params")
            return await script()

        async def go():
            orig = cls.__call__
            cls.__call__ = patched
            try:
                return await registered(es, params)
            finally:
                cls.__call__ = orig

        return go()

    res, trace, _ = drive(call, outs)
    a = model_args(dict(pw, ctor=False), outs)
    a["wrapped"] = row["wrapped"]
    a["reg_until"] = row["until"]
    m = ctx.model("retry", "registered", a)
    mr = m["r"]
    if [mr["res"], mr["trace"]] != [res, trace]:
        ctx.diff("registered runner " + op, {"res": mr["res"], "trace": mr["trace"], "row": row}, {"res": res, "trace": trace})
    # direct oracle: an operation the documentation calls retryable honours the retry parameters
    if row["doc_retryable"]:
        # the documentation of get-async-search states that it waits until success by default
        exp = oracle(dict(pw, ctor=None), outs, ctor_default=(op == "get-async-search"))
        if exp is not None and [exp[0], exp[1]] != [res, trace]:
            c = classify_failure(pw, outs, exp, (res, trace))
            if c == "retry-semantics":
                c = "documented-retryable-operation-not-retried"
            ctx.fail(c, f"operation type {op} is documented as retryable but does not retry as configured", {"res": exp[0], "trace": exp[1]}, {"res": res, "trace": trace})
    ctx.count("wrapped" if row["wrapped"] else "plain")
    ctx.sig([op, row["wrapped"], row["until"], res[0], len(trace)], nontrivial=bool(outs))


# ---------------------------------------------------------------------------------------------
# consecutive invocations of a task: the REAL runner bodies, one params dict per task (as ParamSource hands out)
# ---------------------------------------------------------------------------------------------
RETRY_KEYS = {"until": "retry-until-success", "retries": "retries", "on_error": "retry-on-error", "wait": "retry-wait-period", "on_timeout": "retry-on-timeout"}
ATTEMPT_CAP = 24       # more delegate invocations than this in one invocation of the task = "would go on" (pending)
ES_CALL_CAP = 400      # client calls inside one attempt (polling runners against a fake cluster)


class Abort(BaseException):
    pass


class Lenient(dict):
    """a permissive, awaitable Elasticsearch response document of a small healthy cluster"""

    CANNED = {
        "status": lambda: "green", "relocating_shards": lambda: 0, "timed_out": lambda: False, "acknowledged": lambda: True, "errors": lambda: False,
        "took": lambda: 1, "count": lambda: 1, "is_running": lambda: False, "is_partial": lambda: False, "id": lambda: "id-1",
        "nodes": lambda: Lenient({"n1": Lenient({"name": "n1", "roles": ["data", "master"]})}),
    }

    def __missing__(self, k):
        f = Lenient.CANNED.get(k)
        return f() if f else Lenient()

    def get(self, k, d=None):
        if dict.__contains__(self, k):
            return dict.__getitem__(self, k)
        return self[k] if k in Lenient.CANNED else d

    @property
    def body(self):
        return self

    def __await__(self):
        if False:
            yield
        return self


class FakeES:
    """stands for the Elasticsearch client: every attribute path is an API; calling it asks `plan(path, args, kwargs)`"""

    def __init__(self, plan, path=()):
        self._plan, self._path = plan, path

    def __getattr__(self, name):
        if name.startswith("__"):
            raise AttributeError(name)
        return FakeES(self._plan, self._path + (name,))

    def options(self, **kw):
        return self

    def __call__(self, *a, **kw):
        return self._plan(".".join(self._path), a, kw)


PARAM_VALUES = {
    "index": "idx", "body": {}, "name": "n", "source-index": "src", "target-index": "tgt", "target-body": {"settings": {}}, "indices": [["idx", {}]],
    "templates": [["t", {"template": {}, "index_patterns": ["x*"]}]], "repository": "repo", "snapshot": "snap", "pipeline": "p", "id": "i", "transform-id": "t", "policy-name": "pol",
    "datafeed-id": "d", "job-id": "j", "data-streams": ["ds"], "path": "/_cluster/health", "query": "from idx", "duration": 0, "fixed-interval": "1h",
}


def _run(coro):
    return _loop().run_until_complete(coro)


_BASE_PARAMS = {}


def base_params(op, registered):
    """operation parameters that get the real runner body as far as possible: mandatory keys are discovered from the
    runner's own complaints (DataError of `mandatory(...)`) against a healthy fake cluster (set-up only, nothing is judged)"""
    import asyncio
    import copy
    from esrally import exceptions

    if op in _BASE_PARAMS:
        return copy.deepcopy(_BASE_PARAMS[op])
    params = {"operation-type": op, "name": op}
    count = {"n": 0}

    def plan(path, a, kw):
        count["n"] += 1
        if count["n"] > ES_CALL_CAP:
            raise Abort()
        return _canned(path)

    async def fake_sleep(d, result=None):
        return result

    orig = asyncio.sleep
    asyncio.sleep = fake_sleep
    try:
        for _ in range(12):
            count["n"] = 0
            try:
                _run(registered({"default": FakeES(plan)}, copy.deepcopy(params)))
                break
            except exceptions.DataError as e:
                m = re.search(r"mandatory parameter '([^']+)'", str(e))
                if not m or m.group(1) in params:
                    break
                params[m.group(1)] = copy.deepcopy(PARAM_VALUES.get(m.group(1), "x"))
            except (Abort, Exception):  # pylint: disable=broad-except
                break
    finally:
        asyncio.sleep = orig
    _BASE_PARAMS[op] = params
    return copy.deepcopy(params)


def _L(x):
    """nested plain data -> Lenient documents"""
    if isinstance(x, dict):
        return Lenient({k: _L(v) for k, v in x.items()})
    if isinstance(x, list):
        return [_L(v) for v in x]
    return x


_SHARD = {"start_time_in_millis": 1000, "stop_time_in_millis": 3000, "index": {"size": {"recovered_in_bytes": 2048}}}
_SNAP_STATS = {"total": {"size_in_bytes": 10, "file_count": 1}, "start_time_in_millis": 1, "time_in_millis": 2000}
_TRANSFORM_STATS = {"documents_processed": 10, "search_time_in_ms": 1, "processing_time_in_ms": 1, "index_time_in_ms": 1}
# what a small cluster answers per API: (healthy document, unhealthy / not-yet-done document); polling runners finish on the healthy one
PATH_DOCS = {
    "cluster.health": ({"status": "green", "relocating_shards": 0, "timed_out": False, "number_of_nodes": 1},
                       {"status": "red", "relocating_shards": 3, "timed_out": True, "number_of_nodes": 1}),
    "indices.recovery": ({"idx": {"shards": [dict(_SHARD, stage="DONE")]}}, {"idx": {"shards": [dict(_SHARD, stage="INDEX")]}}),
    "snapshot.get": ({"snapshots": [], "total": 0}, {"snapshots": [{"snapshot": "snap"}], "total": 1}),
    "snapshot.status": ({"snapshots": [{"state": "SUCCESS", "stats": _SNAP_STATS}]}, {"snapshots": [{"state": "IN_PROGRESS", "stats": _SNAP_STATS}]}),
    "transform.get_transform_stats": ({"transforms": [{"state": "stopped", "stats": _TRANSFORM_STATS}]}, {"transforms": [{"state": "indexing", "stats": _TRANSFORM_STATS}]}),
    "info": ({"version": {"number": "8.6.1", "build_flavor": "default"}}, {"version": {"number": "8.6.1", "build_flavor": "default"}}),
    "nodes.info": ({"nodes": {"n1": {"name": "n1", "roles": ["data", "master"]}}}, {"nodes": {"n1": {"name": "n1", "roles": ["master"]}}}),
    "indices.get": ({"src-1": {"settings": {}}, "src-2": {"settings": {}}}, {"src-1": {"settings": {}}}),
    "tasks.list": ({"nodes": {}}, {"nodes": {"n1": {"tasks": {}}}}),
    "indices.exists": ({"exists": True}, {"exists": True}),
}
DEFAULT_DOCS = ({"acknowledged": True, "took": 1}, {"acknowledged": False, "errors": True, "status": "red", "timed_out": True, "is_running": True, "is_partial": True})


def path_doc(path, healthy=True):
    h, u = PATH_DOCS.get(path, DEFAULT_DOCS)
    return h if healthy else u


def _canned(path):
    return _L(path_doc(path, True))


API_STATUSES = [400, 403, 404, 408, 409, 429, 500, 503]
API_BODYKINDS = ["none", "errdoc", "healthy", "unhealthy", "text"]


def make_api_answer(status, bodykind, path, idx):
    """an ApiError as elasticsearch-py raises it for this status, with or without a meaningful body (e.g. a 408 of the
    health API still carries a regular health document)"""
    import copy
    import elasticsearch

    cls = {400: elasticsearch.BadRequestError, 401: elasticsearch.AuthenticationException, 403: elasticsearch.AuthorizationException,
           404: elasticsearch.NotFoundError, 409: elasticsearch.ConflictError}.get(status, elasticsearch.ApiError)
    marker = f"answer_{status}_{idx}"
    body = {
        "none": None,
        "errdoc": {"error": {"type": marker, "reason": "r", "root_cause": [{"type": marker, "reason": "r"}]}, "status": status},
        "healthy": copy.deepcopy(path_doc(path, True)),
        "unhealthy": copy.deepcopy(path_doc(path, False)),
        "text": f"{status} {marker}",
    }[bodykind]
    return cls(marker, _meta(status, idx), body)


def answer_for(spec, path, idx):
    """-> (document, None) or (None, exception) for one client call"""
    if spec == "h":
        return _L(path_doc(path, True)), None
    if spec == "u":
        return _L(path_doc(path, False)), None
    if spec == "e":
        return Lenient(), None
    if spec[0] == "api":
        return None, make_api_answer(spec[1], spec[2], path, idx)
    if spec[0] == "exc":
        return None, make_outcome(spec[1], spec[2], idx)[1]
    raise HarnessError("unknown answer spec " + str(spec))


def classify_outcome(is_value, obj):
    """the outcome class of what a delegate invocation produced (the property's classes, by isinstance)"""
    import socket
    import elasticsearch
    import elastic_transport

    if is_value:
        if isinstance(obj, dict):
            return "dictOk" if obj.get("success", True) else "dictFail"
        return "nonDict"
    if isinstance(obj, socket.timeout):
        return "sockTimeout"
    if isinstance(obj, elasticsearch.exceptions.ConnectionTimeout):
        return "connTimeout"
    if isinstance(obj, elasticsearch.exceptions.ConnectionError):
        return "connError"
    if isinstance(obj, elasticsearch.ApiError):
        return "api408" if obj.status_code == 408 else "apiOther"
    if isinstance(obj, elastic_transport.TransportError):
        return "transportOther"
    return "otherExc"


_ABSENT = "<absent>"


def retry_view(params):
    return {k: (params[name] if name in params else _ABSENT) for k, name in RETRY_KEYS.items()}


def encode_view_value(k, v):
    """wire value for the model; raises ValueError when the value is outside the model's domain"""
    if k == "retries":
        if isinstance(v, bool) or not isinstance(v, int):
            raise ValueError("retries is not an int")
        return v
    if k == "wait":
        if isinstance(v, bool) or not isinstance(v, (int, float)):
            raise ValueError("retry-wait-period is not a number")
        f = Fraction(v)
        return f"{f.numerator}/{f.denominator}"
    return bool(v)


def view_update(v0, v1):
    upd = {}
    for k in RETRY_KEYS:
        if v0[k] is not v1[k] and v0[k] != v1[k] or type(v0[k]) is not type(v1[k]):
            upd[k] = None if v1[k] == _ABSENT else encode_view_value(k, v1[k])
    return upd or None


FAULTS = ["connTimeout", "connError", "sockTimeout", "api408", "apiOther", "transportOther", "otherExc"]


def gen_task_invocations(ctx):
    """every operation type x task parameters x shared / fresh params dict x several consecutive invocations whose
    per-attempt plans (healthy, forced unsuccessful result, fault on the n-th client call) outlast the budget or not"""
    from esrally import track

    ops = sorted(m.to_hyphenated_string() for m in track.OperationType)
    rng = ctx.rng
    mine = [op for i, op in enumerate(ops) if i % ctx.nshards == ctx.shard]
    fixed_params = [{"retries": 1, "wait": ["f", "0.25"]}, {"retries": 2, "on_error": True, "wait": ["i", 1]}, {}, {"retries": 0, "on_timeout": False}]
    for op in mine:
        for pw in fixed_params:
            r = pw.get("retries", 0)
            long_to = [["connTimeout", 1, 0]] * (r + 3)
            long_fail = [["fail"]] * (r + 3)
            for shared in (True, False):
                yield {"op": op, "p": pw, "shared": shared, "invs": [[["ok"]], long_to, [["ok"]], long_fail]}
                yield {"op": op, "p": pw, "shared": shared, "invs": [long_to, [["ok"], ["ok"]], [["connError", 2, 1]] * (r + 3)]}
                yield {"op": op, "p": pw, "shared": shared, "invs": [[["connTimeout", 6, 0], ["ok"]], [["api408", 1, 0]] * (r + 3), [["connTimeout", 9, 2]] * (r + 3)]}
        for _ in range(max(0, ctx.budget // max(1, len(mine)) - 24)):
            n = rng.choice([2, 3])
            pw = gen_params(rng, n)
            pw["ctor"] = None
            if pw.get("retries") is not None and pw["retries"] > 4:
                pw["retries"] = rng.choice([1, 2, 3])
            if rng.random() < 0.8:
                pw["until"] = None if rng.random() < 0.7 else False
            invs = []
            for _i in range(rng.choice([2, 2, 3, 4])):
                L = rng.choice([0, 1, 2, 3, 5, 8])
                mode = rng.random()
                plan = []
                for _j in range(L):
                    if mode < 0.35:
                        plan.append([rng.choice(["connTimeout", "connError", "sockTimeout", "api408"]), rng.choice([1, 1, 2, 3, 5, 8]), rng.randrange(NVARIANTS)])
                    elif mode < 0.5:
                        plan.append(["fail"])
                    else:
                        b = rng.random()
                        plan.append(["ok"] if b < 0.25 else ["fail"] if b < 0.4 else [rng.choice(FAULTS), rng.choice([1, 1, 2, 3, 5, 8]), rng.randrange(NVARIANTS)])
                invs.append(plan)
            yield {"op": op, "p": pw, "shared": rng.random() < 0.7, "invs": invs}


def gen_cluster_answers(ctx):
    """every registered operation type x a fake cluster whose answer to the n-th client call of an attempt is drawn from
    {healthy document, unhealthy / not-yet-done document, empty, ApiError 400/403/404/408/409/429/500/503 with no / error / healthy /
    unhealthy / text body, ConnectionTimeout, ConnectionError, socket.timeout, other transport error}; the same answer script is
    repeated for more attempts than the budget allows, under several retry flag combinations"""
    from esrally import track

    ops = sorted(m.to_hyphenated_string() for m in track.OperationType)
    rng = ctx.rng
    mine = [op for i, op in enumerate(ops) if i % ctx.nshards == ctx.shard]
    flag_sets = [{"retries": 2}, {"retries": 2, "on_timeout": False, "on_error": True, "wait": ["f", "0.25"]}, {"retries": 1, "on_error": True, "wait": ["i", 2]}]
    quick = ctx.tier != "thorough"
    for oi, op in enumerate(mine):
        n = 0
        specs = [["api", st, bk] for st in API_STATUSES for bk in API_BODYKINDS] + ["u", "e", ["exc", "connTimeout", 0], ["exc", "connError", 1],
                                                                                   ["exc", "sockTimeout", 0], ["exc", "transportOther", 2]]
        for si, spec in enumerate(specs):
            for pos in (0, 1, 2):
                # quick tier: every (spec, position) once, flag set rotated; thorough: all flag sets
                for fi, pw in enumerate(flag_sets):
                    if quick and (si + pos + oi) % len(flag_sets) != fi:
                        continue
                    answers = ["h"] * pos + [spec]
                    plan = [["answers", answers]] * (pw["retries"] + 3)
                    yield {"op": op, "p": pw, "shared": (si + pos) % 2 == 0, "invs": [plan, [["ok"]]]}
                    n += 1
        for _ in range(max(0, ctx.budget // max(1, len(mine)) - n)):
            pw = gen_params(rng, 3)
            pw["ctor"] = None
            if pw.get("retries") is not None and pw["retries"] > 4:
                pw["retries"] = rng.choice([1, 2, 3])
            if rng.random() < 0.85:
                pw["until"] = None
            invs = []
            for _i in range(rng.choice([1, 2, 3])):
                plan = []
                for _j in range(rng.choice([1, 2, 3, 5, 7])):
                    answers = []
                    for _c in range(rng.choice([1, 1, 2, 3, 4, 6])):
                        r = rng.random()
                        if r < 0.4:
                            answers.append("h")
                        elif r < 0.55:
                            answers.append(rng.choice(["u", "u", "e"]))
                        elif r < 0.85:
                            answers.append(["api", rng.choice(API_STATUSES), rng.choice(API_BODYKINDS)])
                        else:
                            answers.append(["exc", rng.choice(["connTimeout", "connError", "sockTimeout", "transportOther"]), rng.randrange(NVARIANTS)])
                    plan.append(["answers", answers])
                invs.append(plan)
            yield {"op": op, "p": pw, "shared": rng.random() < 0.5, "invs": invs}


def run_task_invocations(ctx, case):
    import asyncio
    import copy
    from esrally.driver import runner
    from esrally.track import params as track_params
    from esrally import exceptions

    rows = _registered(ctx)
    op, pw, shared, invs = case["op"], case["p"], case["shared"], case["invs"]
    row = rows.get(op)
    if row is None:
        raise HarnessError(f"unknown operation type {op}")
    try:
        registered = runner.runner_for(op)
    except exceptions.RallyError:
        ctx.sig(["unregistered"], nontrivial=False)
        return
    inner = runner.unwrap(registered)
    cls = type(inner)
    task_params = base_params(op, registered)
    task_params.update(wire_params(pw))
    pristine = copy.deepcopy(task_params)
    task_view = retry_view(pristine)
    # the driver asks the task's parameter source before every invocation; the default one hands out the same dict
    source = track_params.ParamSource(None, task_params)
    st = {"attempts": None, "trace": None, "depth": 0, "es_calls": 0, "fault": None, "plan": None, "inner_sleeps": 0, "client": []}

    def es_plan(path, a, kw):
        st["es_calls"] += 1
        if st["es_calls"] > ES_CALL_CAP:
            raise Abort("inner")
        f = st["fault"]
        exc = None
        doc = None
        if f is not None and f[0] == "answers":
            spec = f[1][st["es_calls"] - 1] if st["es_calls"] - 1 < len(f[1]) else "h"
            doc, exc = answer_for(spec, path, len(st["attempts"]))
        elif f is not None and st["es_calls"] == f[1]:
            exc = make_outcome(f[0], f[2], len(st["attempts"]))[1]
        else:
            doc = _canned(path)
        if st["depth"] > 0:
            st["client"].append((path, exc))
        if exc is not None:
            raise exc
        return doc

    es = {"default": FakeES(es_plan)}
    orig_call = cls.__call__

    async def attempt(self, e, p):
        idx = len(st["attempts"])
        if idx >= ATTEMPT_CAP:
            raise Abort("attempts")
        st["trace"].append("c")
        beh = st["plan"][idx] if idx < len(st["plan"]) else ["ok"]
        st["fault"] = beh if beh[0] not in ("ok", "fail") else None
        st["es_calls"] = 0
        st["client"] = []
        v0 = retry_view(p)
        st["depth"] += 1
        try:
            try:
                r = await orig_call(self, e, p)
                if beh[0] == "fail":
                    r = {"weight": 1, "unit": "ops", "success": False}
                out = (True, r)
            except Exception as ex:  # pylint: disable=broad-except
                out = (False, ex)
        finally:
            st["depth"] -= 1
            st["fault"] = None
        st["attempts"].append({"k": classify_outcome(*out), "obj": out[1], "v0": v0, "v1": retry_view(p), "same_dict": p is st["handed"],
                               "client": st["client"], "is_value": out[0], "plan": beh})
        if out[0]:
            return out[1]
        raise out[1]

    async def fake_sleep(d, result=None):
        if st["depth"] == 0:
            f = Fraction(d)
            st["trace"].append(f"{f.numerator}/{f.denominator}")
        else:
            st["inner_sleeps"] += 1
        return result

    observed = []
    wire_invs = []
    mutated_before = False
    unencodable = False
    orig_sleep = asyncio.sleep
    asyncio.sleep = fake_sleep
    cls.__call__ = attempt
    try:
        for i, plan in enumerate(invs):
            params = source.params() if shared else copy.deepcopy(pristine)
            st.update(attempts=[], trace=[], depth=0, plan=plan, handed=params)
            before = retry_view(params)
            try:
                ret = _run(registered(es, params))
                kind, payload = "returned", ret
            except Abort as ab:
                kind, payload = ("pending" if str(ab) == "attempts" else "aborted-inside-attempt"), None
            except Exception as ex:  # pylint: disable=broad-except
                kind, payload = "raised", ex
            atts = st["attempts"]
            if kind == "aborted-inside-attempt":
                ctx.count("aborted-inside-attempt(polling runner against the fake cluster)")
                break
            if kind == "pending":
                res = ["pending"]
            elif kind == "returned" and not atts and payload is None:
                res = ["fell"]
            elif atts and atts[-1]["obj"] is payload and (kind == "returned") == (atts[-1]["k"] in VALUE_KINDS):
                res = [kind, len(atts) - 1]
            else:
                res = [kind + "-foreign", type(payload).__name__, str(payload)[:80]]
            after = retry_view(params)
            # generic oracle: a runner must not change the retry-relevant keys of the params it is handed
            if any(before[k] != after[k] or type(before[k]) is not type(after[k]) for k in RETRY_KEYS):
                mutated_before = True
                ctx.fail("runner-mutates-retry-parameters",
                         f"after invocation {i + 1} of {op} the retry parameters of the task's params dict differ from what the task configured",
                         {k: str(v) for k, v in before.items()}, {k: str(v) for k, v in after.items()})
            # direct oracle on what the cluster answered inside each attempt (documented retryable operations): the outcome classes
            # of the property are Elasticsearch's answers, so the runner body must hand a client error on as it is
            if row["doc_retryable"]:
                for ai, a in enumerate(atts):
                    cl = a["client"]
                    for ci, (pth, ex) in enumerate(cl):
                        if ex is not None and classify_outcome(False, ex) in ("apiOther", "transportOther", "otherExc") and any(p2 == pth for p2, _ in cl[ci + 1:]):
                            ctx.fail("non-retryable-error-retried-inside-attempt",
                                     f"{op}: the request [{pth}] was answered with a non-retryable error ({type(ex).__name__} {getattr(ex, 'status_code', '')}) and was issued again inside the same attempt instead of propagating at once",
                                     "error propagates immediately", {"attempt": ai + 1, "client calls": [[p2, type(e2).__name__ if e2 else "doc"] for p2, e2 in cl][:12]})
                            break
                    if cl and cl[-1][1] is not None and not (a["is_value"] is False and a["obj"] is cl[-1][1]) and a["plan"][0] != "fail":
                        ex = cl[-1][1]
                        ctx.fail("error-answer-not-propagated",
                                 f"{op}: the last request of the attempt [{cl[-1][0]}] was answered with {type(ex).__name__} {getattr(ex, 'status_code', '')} "
                                 f"(class {classify_outcome(False, ex)}) but the attempt ended as {a['k']} instead of raising that error",
                                 classify_outcome(False, ex), {"attempt": ai + 1, "attempt outcome": a["k"], "value": str(a["obj"])[:160]})
            w = []
            for a in atts:
                try:
                    upd = view_update(a["v0"], a["v1"])
                except ValueError:
                    upd, unencodable = None, True
                w.append({"k": a["k"], "upd": upd})
            wire_invs.append(w)
            observed.append({"res": res, "trace": list(st["trace"]), "kinds": [a["k"] for a in atts]})
            # direct oracle: every invocation retries as the TASK is configured
            if row["doc_retryable"]:
                exp = oracle(dict(pw, ctor=None), [[k, 0] for k in observed[-1]["kinds"]], ctor_default=(op == "get-async-search"))
                if exp is not None and [exp[0], exp[1]] != [res, observed[-1]["trace"]]:
                    if i > 0 and shared and (mutated_before or after != task_view):
                        c = "later-invocation-not-as-configured"
                    else:
                        c = classify_failure(pw, [[k, 0] for k in observed[-1]["kinds"]], exp, (res, observed[-1]["trace"]))
                        if c == "retry-semantics":
                            c = "documented-retryable-operation-not-retried"
                    ctx.fail(c, f"invocation {i + 1} of task {op} (same params dict: {shared}) does not retry as the task is configured",
                             {"res": exp[0], "trace": exp[1], "delegate outcomes": observed[-1]["kinds"]}, {"res": res, "trace": observed[-1]["trace"]})
    finally:
        cls.__call__ = orig_call
        asyncio.sleep = orig_sleep
    if observed and not unencodable:
        a = model_args(dict(pw, ctor=False), [])
        del a["outs"]
        a.update(wrapped=row["wrapped"], reg_until=row["until"], shared=shared, invocations=wire_invs)
        m = ctx.model("retry", "task", a)
        mm = [{"res": r["res"], "trace": r["trace"]} for r in m["r"]]
        oo = [{"res": o["res"], "trace": o["trace"]} for o in observed]
        if mm != oo:
            ctx.diff("task invocations " + op, {"runs": mm, "row": row}, {"runs": oo, "delegate outcomes": [o["kinds"] for o in observed]})
    reached = sum(len(o["kinds"]) for o in observed)
    ctx.count("wrapped" if row["wrapped"] else "plain")
    for o in observed:
        for k in o["kinds"]:
            ctx.count("delegate-outcome:" + k)
    ctx.count("invocations", len(observed))
    ctx.count("params-dict:" + ("shared" if shared else "fresh"))
    ctx.sig([op, shared, [o["res"][0] for o in observed], sorted({k for o in observed for k in o["kinds"]})], nontrivial=reached > 0)


# ---------------------------------------------------------------------------------------------
# long outcome sequences: large budgets and retry-until-success are honoured for thousands of attempts
# ---------------------------------------------------------------------------------------------
def gen_long(ctx):
    rng = ctx.rng
    for i in range(ctx.budget):
        n = rng.choice([1000, 1200, 1500, 2000, 3000]) + rng.randrange(0, 50)
        pool = rng.choice([["dictFail"], ["connTimeout"], ["dictFail", "connTimeout", "connError", "api408", "sockTimeout"]])
        outs = [[rng.choice(pool), rng.randrange(NVARIANTS)] for _ in range(n)]
        mode = (i + ctx.shard) % 4
        if mode == 0:
            pw, tail = {"until": True, "wait": ["f", "0.01"]}, [["dictOk", 0]]
        elif mode == 1:
            pw, tail = {"retries": n + rng.choice([0, 1, 100]), "on_error": True, "wait": ["i", 0]}, [["dictOk", 1]]
        elif mode == 2:
            pw, tail = {"retries": n - 1 - rng.randrange(0, 3), "on_error": True}, [["dictOk", 2]]   # the budget ends inside the failures
        else:
            pw, tail = {"ctor": True, "wait": ["f", "0.5"]}, [["nonDict", 0]]
        yield {"p": dict({"ctor": None, "until": None, "retries": None, "on_error": None, "on_timeout": None, "wait": None}, **pw), "outs": outs + tail}


# ---------------------------------------------------------------------------------------------
# several invocations in flight on ONE runner object (the clients of a worker share the registered runner)
# ---------------------------------------------------------------------------------------------
def gen_concurrent(ctx):
    """2-3 overlapping invocations with different retry settings and different delegate scripts on one shared runner object
    (a registered operation type through runner_for, or one Retry(delegate)), started at different virtual times"""
    from esrally import track

    ops = sorted(m.to_hyphenated_string() for m in track.OperationType)
    rng = ctx.rng
    waits = [None, ["f", "0.25"], ["i", 1], ["f", "0.4"], ["i", 2], ["f", "0.5"]]
    for i in range(ctx.budget):
        op = None if rng.random() < 0.3 else ops[(i * ctx.nshards + ctx.shard) % len(ops)]
        invs = []
        for k in range(rng.choice([2, 2, 3])):
            n = rng.choice([1, 2, 3, 4, 5])
            pw = gen_params(rng, n)
            pw["ctor"] = None
            pw["wait"] = rng.choice(waits)
            if pw.get("retries") is not None and pw["retries"] < 0:
                pw["retries"] = 0
            if rng.random() < 0.2:
                pw["until"] = True
            outs = gen_script(rng, n)
            if pw.get("until") and rng.random() < 0.8:
                outs.append(["dictOk", 0])
            invs.append({"p": pw, "outs": outs, "start": rng.choice(["0", "0", "1/10", "3/10", "3/5", "1"])})
        yield {"op": op, "invs": invs}
    if ctx.shard == 0:
        # a long-budget call sleeping between attempts while a call with other settings starts and finishes
        yield {"op": "refresh", "invs": [
            {"p": {"retries": 3, "wait": ["i", 1]}, "outs": [["connTimeout", 0]] * 5, "start": "0"},
            {"p": {}, "outs": [["dictOk", 0]], "start": "1/2"}]}
        yield {"op": None, "invs": [
            {"p": {"until": True, "wait": ["i", 1]}, "outs": [["dictFail", 0]] * 4 + [["dictOk", 0]], "start": "0"},
            {"p": {"retries": 1, "wait": ["f", "0.25"]}, "outs": [["connError", 0], ["connError", 1], ["dictOk", 0]], "start": "1/2"}]}


def run_concurrent(ctx, case):
    import asyncio
    import heapq
    from esrally.driver import runner
    from esrally import exceptions

    op, invs = case["op"], case["invs"]
    rows = _registered(ctx)
    es_default = object()
    if op is None:
        row = {"wrapped": True, "until": False, "doc_retryable": True, "op": None}
        holder = {}

        async def shared_delegate(e, p):
            return await holder["dispatch"](p)

        target = runner.Retry(shared_delegate)
        es = es_default
        cls = None
    else:
        row = rows.get(op)
        try:
            target = runner.runner_for(op)
        except exceptions.RallyError:
            ctx.sig(["unregistered"], nontrivial=False)
            return
        es = {"default": es_default}
        cls = type(runner.unwrap(target))
    params = [wire_params(v["p"]) for v in invs]
    objs = [[make_outcome(k, var, i) for i, (k, var) in enumerate(v["outs"])] for v in invs]
    traces = [[] for _ in invs]
    times = [[] for _ in invs]
    counts = [0] * len(invs)
    clock = {"t": Fraction(0), "seq": 0}
    timers = []
    task_inv = {}
    loop = _loop()
    orig_sleep = asyncio.sleep

    async def dispatch(p):
        j = next((j for j, q in enumerate(params) if q is p), None)
        if j is None:
            raise HarnessError("delegate called with a params object that belongs to no invocation")
        i = counts[j]
        counts[j] += 1
        traces[j].append("c")
        times[j].append(clock["t"])
        if i >= len(objs[j]):
            raise ScriptExhausted()
        is_value, o = objs[j][i]
        if is_value:
            return o
        raise o

    async def patched(self, e, p):
        return await dispatch(p)

    async def fake_sleep(d, result=None):
        j = task_inv.get(asyncio.current_task())
        f = Fraction(d)
        if j is not None and j >= 0:
            traces[j].append(f"{f.numerator}/{f.denominator}")
        fut = loop.create_future()
        clock["seq"] += 1
        heapq.heappush(timers, (clock["t"] + max(f, 0), clock["seq"], fut))
        await fut
        return result

    results = [None] * len(invs)

    async def one(j):
        task_inv[asyncio.current_task()] = -1 - j      # the start delay is not part of the invocation
        await fake_sleep(Fraction(invs[j]["start"]))
        task_inv[asyncio.current_task()] = j
        try:
            results[j] = ("returned", await target(es, params[j]))
        except ScriptExhausted:
            results[j] = ("pending", None)
        except Exception as ex:  # pylint: disable=broad-except
            results[j] = ("raised", ex)

    async def main():
        tasks = [loop.create_task(one(j)) for j in range(len(invs))]
        spins = 0
        while True:
            while sum(not t.done() for t in tasks) > len(timers):
                await orig_sleep(0)
                spins += 1
                if spins > 200000:
                    raise HarnessError("virtual-time scheduler does not reach quiescence")
            if all(t.done() for t in tasks):
                break
            when, _, fut = heapq.heappop(timers)
            clock["t"] = when
            fut.set_result(None)
        for t in tasks:
            t.result()

    if op is None:
        holder["dispatch"] = dispatch
    else:
        orig_call = cls.__call__
        cls.__call__ = patched
    asyncio.sleep = fake_sleep
    try:
        loop.run_until_complete(main())
    finally:
        asyncio.sleep = orig_sleep
        if op is not None:
            cls.__call__ = orig_call
    sig = []
    for j, v in enumerate(invs):
        kind, payload = results[j]
        tr = traces[j]
        if kind == "pending":
            res, tr = ["pending"], tr[:-1]
        else:
            n = tr.count("c")
            if kind == "returned" and n == 0 and payload is None:
                res = ["fell"]
            elif 1 <= n <= len(objs[j]) and objs[j][n - 1][1] is payload and objs[j][n - 1][0] == (kind == "returned"):
                res = [kind, n - 1]
            else:
                res = [kind + "-foreign", type(payload).__name__, str(payload)[:80]]
        a = model_args(dict(v["p"], ctor=False), v["outs"])
        a["wrapped"], a["reg_until"] = row["wrapped"], row["until"]
        m = ctx.model("retry", "registered", a)
        if [m["r"]["res"], m["r"]["trace"]] != [res, tr]:
            ctx.diff(f"invocation {j + 1} of {len(invs)} in flight on one runner object ({op or 'Retry(delegate)'})",
                     {"res": m["r"]["res"], "trace": m["r"]["trace"]}, {"res": res, "trace": tr, "attempt times": [str(t) for t in times[j]]})
        if row["doc_retryable"]:
            exp = oracle(dict(v["p"], ctor=None), v["outs"], ctor_default=(op == "get-async-search"))
            ok = exp is None or [exp[0], exp[1]] == [res, tr]
            if ok and exp is not None:
                # attempts happen when the invocation's own waits say so (virtual clock)
                t, want = Fraction(v["start"]), []
                for ev in exp[1]:
                    if ev == "c":
                        want.append(t)
                    else:
                        t += max(Fraction(ev), 0)
                if want != times[j][: len(want)]:
                    ok = False
            if not ok:
                ctx.fail("concurrent-invocations-interfere",
                         f"invocation {j + 1} of {len(invs)} overlapping invocations on one runner object ({op or 'Retry(delegate)'}) does not retry as ITS OWN parameters say",
                         {"res": exp[0], "trace": exp[1]}, {"res": res, "trace": tr, "attempt times": [str(t) for t in times[j]], "own parameters": v["p"],
                                                             "other invocations": [w["p"] for k, w in enumerate(invs) if k != j]})
        sig.append([res[0], len(tr)])
    ctx.count("invocations-in-flight:%d" % len(invs))
    ctx.count("shared-object:" + ("registered" if op else "Retry(delegate)"))
    ctx.sig([op is None, sig], nontrivial=True)

# ---------------------------------------------------------------------------------------------
# what the attempts' products SAY: error class (every class of the libraries) x HTTP status x wording
# (message / Elasticsearch error type / response body) x what the EARLIER attempts of the same invocation produced
# ---------------------------------------------------------------------------------------------
# error types / wordings Elasticsearch and the client libraries really produce (Rally's client puts the error type into the message)
ES_WORDINGS = [
    "resource_already_exists_exception", "version_conflict_engine_exception", "index_not_found_exception", "resource_not_found_exception",
    "illegal_argument_exception", "illegal_state_exception", "parsing_exception", "mapper_parsing_exception", "x_content_parse_exception",
    "cluster_block_exception", "es_rejected_execution_exception", "circuit_breaking_exception", "process_cluster_event_timeout_exception",
    "receive_timeout_transport_exception", "request_timeout", "timeout_exception", "elasticsearch_timeout_exception",
    "snapshot_in_progress_exception", "concurrent_snapshot_execution_exception", "invalid_snapshot_name_exception", "snapshot_missing_exception",
    "snapshot_restore_exception", "repository_missing_exception", "repository_exception", "security_exception", "search_phase_execution_exception",
    "status_exception", "no_shard_available_action_exception", "unavailable_shards_exception", "master_not_discovered_exception",
    "not_master_exception", "node_not_connected_exception", "connect_transport_exception", "index_closed_exception",
    "invalid_index_name_exception", "too_many_requests", "task_cancelled_exception", "document_missing_exception",
    "strict_dynamic_mapping_exception", "index_template_missing_exception", "invalid_alias_name_exception", "aliases_not_found_exception",
    "action_request_validation_exception", "validation_exception", "resource_in_use_exception", "retention_lease_already_exists_exception",
    "already exists", "already_exists", "Connection timed out", "Connection refused", "Read timed out", "timed out", "success", "ok", "acknowledged",
    "N/A", "", "408", "409", "400",
]
API_STATUS_POOL = [400, 401, 403, 404, 405, 408, 409, 410, 412, 413, 429, 500, 502, 503, 504]
RARE_STATUSES = [0, 100, 200, 201, 301, 402, 406, 407, 418, 422, 499, 501, 507, 599]
SUCCESS_SPECS = ["absent", True, False, 0, 1, None, "", "no", [], [0], 0.0, "false"]
_VOCAB = {}


def code_vocabulary(repo_root):
    """fuzzing dictionary from the tree under test: every identifier-like string constant of esrally/driver/runner.py that looks like an
    error wording or is a constant of class Retry, and every integer 100..599 of class Retry (values at the constants of the code)"""
    if repo_root in _VOCAB:
        return _VOCAB[repo_root]
    words, ints = set(), set()
    try:
        src = open(os.path.join(repo_root, "esrally", "driver", "runner.py"), encoding="utf-8").read()
        words.update(re.findall(r"[a-z][a-z_]*_(?:exception|error|timeout)\b", src))
        tree = ast.parse(src)
        for node in tree.body:
            if isinstance(node, ast.ClassDef) and node.name == "Retry":
                for n in ast.walk(node):
                    if isinstance(n, ast.Constant):
                        if isinstance(n.value, str) and 2 <= len(n.value) <= 60 and re.fullmatch(r"[\w\-./: ]+", n.value):
                            words.add(n.value)
                        elif isinstance(n.value, int) and not isinstance(n.value, bool) and 100 <= n.value <= 599:
                            ints.add(n.value)
    except (OSError, SyntaxError):
        pass
    _VOCAB[repo_root] = (sorted(words - set(ES_WORDINGS)), sorted(ints - set(API_STATUS_POOL)))
    return _VOCAB[repo_root]


def exc_population():
    """name -> (class, group).  `group` is the property's outcome class of objects of that class, assigned by hand from the property text
    (classes that inherit from several of the families do not exist in the libraries and are deliberately not driven: the order of the
    `except` clauses is not observable on real classes, and a rewrite that reorders or merges clauses keeps the property)"""
    import socket
    import asyncio
    import elasticsearch
    import elastic_transport
    from esrally import exceptions

    E, T = elasticsearch, elastic_transport
    pop = {
        "socket.timeout": (socket.timeout, "sockTimeout"), "TimeoutError": (TimeoutError, "sockTimeout"), "asyncio.TimeoutError": (asyncio.TimeoutError, "sockTimeout"),
        "es.ConnectionError": (E.exceptions.ConnectionError, "connError"), "transport.ConnectionError": (T.ConnectionError, "connError"),
        "TlsError": (T.TlsError, "connError"), "SSLError": (E.exceptions.SSLError, "connError"),
        "es.ConnectionTimeout": (E.exceptions.ConnectionTimeout, "connTimeout"), "transport.ConnectionTimeout": (T.ConnectionTimeout, "connTimeout"),
        "ApiError": (E.ApiError, "api"), "BadRequestError": (E.BadRequestError, "api"), "ConflictError": (E.ConflictError, "api"),
        "NotFoundError": (E.NotFoundError, "api"), "AuthenticationException": (E.AuthenticationException, "api"),
        "AuthorizationException": (E.AuthorizationException, "api"), "UnsupportedProductError": (E.UnsupportedProductError, "api"),
        "by-status": (None, "api"),      # the class elasticsearch-py picks for the status (HTTP_EXCEPTIONS, else ApiError)
        "TransportError": (T.TransportError, "transportOther"), "SerializationError": (T.SerializationError, "transportOther"),
        "SniffingError": (T.SniffingError, "transportOther"),
        "KeyError": (KeyError, "otherExc"), "ValueError": (ValueError, "otherExc"), "OSError": (OSError, "otherExc"),
        "ConnectionRefusedError": (ConnectionRefusedError, "otherExc"), "ConnectionResetError": (ConnectionResetError, "otherExc"),
        "RallyError": (exceptions.RallyError, "otherExc"), "DataError": (exceptions.DataError, "otherExc"),
        "RallyTaskAssertionError": (exceptions.RallyTaskAssertionError, "otherExc"),
    }
    return pop


EXC_NAMES_BY_GROUP = {
    "sockTimeout": ["socket.timeout", "TimeoutError", "asyncio.TimeoutError"],
    "connError": ["es.ConnectionError", "transport.ConnectionError", "TlsError", "SSLError"],
    "connTimeout": ["es.ConnectionTimeout", "transport.ConnectionTimeout"],
    "api": ["by-status"] * 6 + ["ApiError", "BadRequestError", "ConflictError", "NotFoundError", "AuthenticationException", "AuthorizationException", "UnsupportedProductError"],
    "transportOther": ["TransportError", "SerializationError", "SniffingError"],
    "otherExc": ["KeyError", "ValueError", "OSError", "ConnectionRefusedError", "ConnectionResetError", "RallyError", "DataError", "RallyTaskAssertionError"],
}


def _api_message_body(what, status, shape):
    """how the wording reaches the exception object: message = error type (Rally's client), error document, text body, string error …"""
    errdoc = {"error": {"type": what, "reason": f"reason [{what}]", "root_cause": [{"type": what, "reason": f"reason [{what}]", "index": "logs-1"}], "index": "logs-1"}, "status": status}
    return [
        (what, errdoc),
        (what, None),
        (what, {}),
        (what, f"{status} {what}"),
        (str(status), {"error": what, "status": status}),
        ("", errdoc),
        (f"{what}: index [logs-1/abc] already exists" if what else "N/A", errdoc),
        (what, what.encode()),
    ][shape % 8]


def build_product(d, idx):
    """descriptor of the case -> (is_value, object, facts for the model, property class or None)"""
    import elasticsearch
    import elastic_transport
    import socket

    what, shape = d.get("what", ""), d.get("shape", 0)
    if "v" in d:
        if d["v"] == "dict":
            o = [{"weight": 1, "unit": "ops"}, {}, {"weight": 3, "unit": "docs", "took": 5}][shape % 3]
            o = dict(o, id=idx)
            if d["success"] != "absent":
                o["success"] = d["success"]
            if shape % 2 == 1 or what:
                o.update({"error-type": ["api", "transport"][shape % 2], "error-description": what, "http-status": d.get("status", 400)})
            truth = None if d["success"] == "absent" else bool(d["success"])
            cls = "dictOk" if truth is None or truth else "dictFail"
            return True, o, {"t": "value", "dict": True, "success": truth}, cls
        o = [(1, "ops", what), what, None, idx + 1000, [what], 0.5, (what,)][shape % 7]
        truth = None if d["success"] == "absent" else bool(d["success"])
        return True, o, {"t": "value", "dict": False, "success": truth}, "nonDict"
    pop = exc_population()
    c, group = pop[d["x"]]
    status = d.get("status", 0)
    if d["x"] == "by-status":
        c = elasticsearch.exceptions.HTTP_EXCEPTIONS.get(status, elasticsearch.ApiError)
    if issubclass(c, elasticsearch.ApiError):
        msg, body = _api_message_body(what, status, shape)
        o = c(msg, _meta(status, shape), body)
    elif issubclass(c, elastic_transport.TransportError):
        errs = [(), (OSError(110, what),), (TimeoutError(what), ValueError("v"))][shape % 3]
        o = c(what if shape % 4 else _Opaque(what), errors=errs)
    else:
        o = c(what) if shape % 5 or issubclass(c, __import__('esrally').exceptions.RallyError) else c()
    facts = {"t": "exc", "sock": isinstance(o, socket.timeout), "conn": isinstance(o, elasticsearch.exceptions.ConnectionError),
             "api": isinstance(o, elasticsearch.ApiError), "cto": isinstance(o, elasticsearch.exceptions.ConnectionTimeout),
             "transport": isinstance(o, elastic_transport.TransportError), "status": status if isinstance(o, elasticsearch.ApiError) else 0}
    cls = group
    if group == "api":
        cls = "api408" if status == 408 else "apiOther"
    return False, o, facts, cls


def _snapshot(is_value, o):
    import copy

    if is_value:
        return copy.deepcopy(o)
    return (type(o), repr(o.args), repr(getattr(o, "message", None)), repr(getattr(o, "body", None)),
            getattr(getattr(o, "meta", None), "status", None), repr(getattr(o, "errors", None)))


def _gen_product(rng, vocab, statuses, earlier):
    r = rng.random()
    what = rng.choice(vocab)
    if earlier and rng.random() < 0.25:
        what = rng.choice(earlier).get("what", what)      # the same wording as an earlier attempt
    shape = rng.randrange(24)
    if r < 0.12:
        return {"v": "dict", "success": rng.choice(["absent", True, True, 1, "yes", [0]]), "what": rng.choice(["", "", what]), "shape": shape}
    if r < 0.27:
        return {"v": "dict", "success": rng.choice([False, False, 0, None, "", [], 0.0]), "what": rng.choice(["", what, what]), "status": rng.choice(statuses), "shape": shape}
    if r < 0.32:
        return {"v": "non", "success": rng.choice(SUCCESS_SPECS), "what": what, "shape": shape}
    if r < 0.62:
        g = rng.choice(["sockTimeout", "connError", "connTimeout"])
        return {"x": rng.choice(EXC_NAMES_BY_GROUP[g]), "status": 0, "what": what, "shape": shape}
    if r < 0.88:
        st = 408 if rng.random() < 0.3 else rng.choice(statuses)
        return {"x": rng.choice(EXC_NAMES_BY_GROUP["api"]), "status": st, "what": what, "shape": shape}
    g = rng.choice(["transportOther", "otherExc"])
    return {"x": rng.choice(EXC_NAMES_BY_GROUP[g]), "status": rng.choice([408, 404, 400, 409, 503]), "what": what, "shape": shape}


def gen_content(ctx):
    """(a) complete: every wording x every common status x every kind of earlier attempt that is retried (the four time-out classes,
    an unsuccessful result, none) x budgets that end at / after the API error; (b) random scripts of raw products of every class"""
    from esrally import track
    from harness.framework import REPO

    rng = ctx.rng
    extra_words, extra_ints = code_vocabulary(REPO)
    vocab = ES_WORDINGS + extra_words
    statuses = API_STATUS_POOL + extra_ints
    ops = sorted(m.to_hyphenated_string() for m in track.OperationType)
    preds = [None, {"x": "es.ConnectionTimeout"}, {"x": "es.ConnectionError"}, {"x": "socket.timeout"}, {"x": "by-status", "status": 408},
             {"v": "dict", "success": False}]
    psets = [{"retries": 2, "on_error": True}, {"until": True, "wait": ["f", "0.25"]}, {"retries": 1, "on_error": True, "wait": ["i", 1]}, {"ctor": True}]
    n = i = 0
    for wi, what in enumerate(vocab):
        for si, st in enumerate(statuses):
            for pi, pred in enumerate(preds):
                i += 1
                if i % ctx.nshards != ctx.shard:
                    continue
                k = wi + si + pi
                raws = []
                if pred is not None:
                    raws.append(dict({"status": 0, "what": vocab[(k * 7) % len(vocab)], "shape": k}, **pred))
                    if k % 3 == 0:
                        raws.append({"v": "dict", "success": [False, 0, None][k % 3], "what": "", "shape": k})
                        if psets[k % 4].get("retries") == 1:
                            raws.pop()
                raws.append({"x": ["by-status", "ApiError", "by-status"][k % 3], "status": st, "what": what, "shape": k // 3})
                raws.append({"v": "dict", "success": "absent", "what": "", "shape": 0})
                yield {"op": ops[k % len(ops)] if k % 4 == 3 else None, "p": psets[k % 4], "raws": raws}
                n += 1
    for _ in range(max(0, ctx.budget - n)):
        L = rng.choice([1, 2, 2, 3, 3, 4, 5, 6, 8])
        raws = []
        for _j in range(L):
            raws.append(_gen_product(rng, vocab, statuses + RARE_STATUSES if rng.random() < 0.2 else statuses, raws))
        pw = gen_params(rng, L)
        if rng.random() < 0.5:
            pw["on_timeout"] = rng.choice([None, True])
            if pw.get("retries") is not None and pw["retries"] >= 0:
                pw["retries"] = max(pw["retries"], L - rng.choice([0, 1, 1, 2]))
        op = rng.choice(ops) if rng.random() < 0.3 else None
        if op is not None:
            pw["ctor"] = None
        yield {"op": op, "p": pw, "raws": raws}


def run_content(ctx, case):
    from esrally.driver import runner
    from esrally import exceptions

    pw, raws, op = case["p"], case["raws"], case.get("op")
    built = [build_product(d, i) for i, d in enumerate(raws)]
    objs = [(b[0], b[1]) for b in built]
    before = [_snapshot(b[0], b[1]) for b in built]
    whats = sorted({d.get("what", "") for d in raws})
    wire = [dict(b[2], what=whats.index(d.get("what", ""))) for b, d in zip(built, raws)]
    params = wire_params(pw)
    ctor_default = False
    registered = None
    if op is not None:
        rows = _registered(ctx)
        try:
            registered = runner.runner_for(op)
        except exceptions.RallyError:
            registered = None
        if registered is not None and not rows[op]["wrapped"]:
            registered = None
    if registered is not None:
        row = rows[op]
        cls = type(runner.unwrap(registered))
        es = {"default": object()}
        eff = dict(pw, ctor=row["until"])
        # the documentation of get-async-search states that it waits until success by default
        ctor_default = op == "get-async-search"
        documented = row["doc_retryable"]

        def call(script):
            async def patched(self, e, p):
                if p is not params:
                    raise HarnessError("innermost runner called with foreign params")
                return await script()

            async def go():
                orig = cls.__call__
                cls.__call__ = patched
                try:
                    return await registered(es, params)
                finally:
                    cls.__call__ = orig

            return go()
    else:
        es = object()
        eff = dict(pw, ctor=bool(pw.get("ctor", False)))
        ctor_default = None
        documented = True

        def call(script):
            async def delegate(e, p):
                if e is not es or p is not params:
                    raise HarnessError("delegate called with foreign arguments")
                return await script()

            r = runner.Retry(delegate) if pw.get("ctor") is None else runner.Retry(delegate, retry_until_success=pw["ctor"])
            return r(es, params)

    res, trace, _ = drive(call, None, objs=objs)
    a = model_args(eff, [])
    del a["outs"]
    a["raws"] = wire
    m = ctx.model("retry", "run_raw", a)
    mr = m["r"]
    if [mr["res"], mr["trace"]] != [res, trace]:
        ctx.diff("Retry.__call__ on raw products" + (f" ({op})" if registered is not None else ""),
                 {"res": mr["res"], "trace": mr["trace"], "kinds": mr["kinds"]}, {"res": res, "trace": trace})
    # direct oracle: the property's classes assigned by hand to the library classes
    kinds = [b[3] for b in built]
    consumed = trace.count("c")
    if documented and all(k is not None for k in kinds[: max(consumed, 1)]):
        known = [[k, 0] for k in kinds]
        cut = next((j for j, k in enumerate(kinds) if k is None), len(kinds))
        if ctor_default is None:
            exp = oracle(pw, known[:cut])
        else:
            exp = oracle(dict(pw, ctor=None), known[:cut], ctor_default=ctor_default)
        if exp is not None and not (exp[0] == ["pending"] and cut < len(kinds)) and [exp[0], exp[1]] != [res, trace]:
            c = "retry-semantics"
            n_exp = exp[1].count("c")
            if 1 <= n_exp <= len(kinds) and kinds[n_exp - 1] in ("apiOther", "api408") and exp[0][0] == "raised" and res[0] != "raised":
                c = "api-error-not-propagated-as-it-is"
            elif res[0] in ("returned-foreign", "raised-foreign"):
                c = "result-not-an-attempts-product"
            ctx.fail(c, "Retry does not do what the property prescribes for these attempt products (class x status x wording x history)",
                     {"res": exp[0], "trace": exp[1], "classes": kinds}, {"res": res, "trace": trace})
    for j in range(min(consumed, len(built))):
        if _snapshot(built[j][0], built[j][1]) != before[j]:
            ctx.fail("attempt-product-altered", f"the product of attempt {j + 1} was changed on its way through Retry", str(before[j])[:200], str(_snapshot(built[j][0], built[j][1]))[:200])
    ctx.count("len:%d" % len(raws))
    ctx.count("res:" + res[0])
    ctx.count("via:" + ("registered" if registered is not None else "Retry(delegate)"))
    for j, k in enumerate(kinds[:consumed]):
        ctx.count("consumed:" + (k or "hybrid"))
        if k == "apiOther" and j > 0 and any(x in TIMEOUTISH for x in kinds[:j] if x):
            ctx.count("api-error-after-retried-timeout")
    ctx.sig([sorted(m.get("tags", [])), res[0], _shape(pw), registered is not None, sorted({k or "hybrid" for k in kinds[:consumed]})], nontrivial=consumed > 0)


STREAMS = [
    Stream("random_scripts", gen_random, run_retry, quick=24000, thorough=1500000, shards=16),
    Stream("all_short_scripts", gen_exhaustive, run_retry, quick=24442, thorough=1, shards=16, exhaustive_thorough=True),
    Stream("registered_ops", gen_registered, run_registered, quick=4000, thorough=60000, shards=8),
    Stream("task_invocations", gen_task_invocations, run_task_invocations, quick=4000, thorough=60000, shards=16),
    Stream("cluster_answers", gen_cluster_answers, run_task_invocations, quick=12000, thorough=120000, shards=16),
    Stream("long_scripts", gen_long, run_retry, quick=32, thorough=320, shards=16),
    Stream("concurrent_invocations", gen_concurrent, run_concurrent, quick=4000, thorough=60000, shards=16),
    Stream("product_content", gen_content, run_content, quick=16000, thorough=160000, shards=16),
]
