"""C16 — runner.Retry retries exactly as configured; which operation types are wrapped in Retry."""
import ast
import itertools
import os
import re
from fractions import Fraction

from harness.framework import Stream, HarnessError, LEAN_DIR

PROPERTY = "C16"
RULE = (
    "scripts = sequences of delegate outcomes over 10 classes (dict success / dict failure / non-dict / socket.timeout / ConnectionError / "
    "ConnectionTimeout / ApiError 408 / other ApiError / other TransportError / other exception), each realised by real exception classes and "
    "several concrete values, x retry parameters (present/absent keys, constructor default); a case is non-trivial when at least one "
    "outcome is consumed; signature = (model (class,step) tags, result kind, parameter shape)"
)
TRUSTED = [
    "the scripted delegate stands for a runner: only the class of what it returns/raises matters to Retry.__call__",
    "asyncio.sleep is replaced by a recorder (durations observed exactly, no wall-clock waiting)",
    "truthiness of parameter values is taken from CPython (bool(x)) before the model is asked",
]
ASSUMPTIONS = [
    "retries is an int; scripts are shorter than sys.maxsize",
    "elasticsearch-py 8 / elastic_transport 8 exception hierarchy (ConnectionTimeout is not a ConnectionError, ApiError is not a TransportError)",
]

KINDS = ["dictOk", "dictFail", "nonDict", "sockTimeout", "connError", "connTimeout", "api408", "apiOther", "transportOther", "otherExc"]
VALUE_KINDS = {"dictOk", "dictFail", "nonDict"}
TIMEOUTISH = {"sockTimeout", "connError", "connTimeout", "api408"}
NVARIANTS = 6


class ScriptExhausted(BaseException):
    """raised by the scripted delegate when it is invoked more often than the script is long
    (BaseException: passes through every `except` clause of Retry.__call__)"""


def _meta(status, shape=0):
    import elastic_transport

    headers = [
        elastic_transport.HttpHeaders(),
        elastic_transport.HttpHeaders({"content-type": "text/html; charset=UTF-8", "retry-after": "1", "x-elastic-product": "Elasticsearch"}),
    ][shape % 2]
    return elastic_transport.ApiResponseMeta(
        status=status,
        http_version=["1.1", "2"][(shape // 2) % 2],
        headers=headers,
        duration=[0.0, 0.25][shape % 2],
        node=elastic_transport.NodeConfig(scheme="http", host="localhost", port=9200),
    )


def _api_body(shape, status, marker):
    """response body of an API error in the shapes elasticsearch-py hands over: parsed JSON of any form, raw text / HTML / bytes"""
    shapes = [
        None,
        {},
        {"error": {"type": marker, "reason": f"reason for {marker}", "root_cause": [{"type": marker, "reason": "r"}]}, "status": status},
        {"error": f"string {marker}", "status": status},
        f"upstream request timeout ({marker})",
        f"<html><body><center><h1>{status}</h1></center><hr>{marker}</body></html>",
        f"bytes {marker}".encode(),
        ["list", marker],
        {"error": {"type": marker}},
        {"message": marker, "statusCode": status},
        {"error": None},
        "",
    ]
    return shapes[shape % len(shapes)]


def _api(cls, message, status, variant, idx):
    shape = variant * 5 + idx  # rotates through all body / header shapes over the script positions
    return cls(message, _meta(status, shape), _api_body(shape, status, message or "m"))


class _Opaque:
    def __init__(self, text):
        self.text = text

    def __str__(self):
        return self.text


def make_outcome(kind, variant, idx):
    """-> (is_value, object). Real classes of elasticsearch / elastic_transport."""
    import socket
    import asyncio
    import elasticsearch
    import elastic_transport
    from esrally import exceptions

    v = variant % NVARIANTS
    if kind == "dictOk":
        return True, [
            {"weight": 1, "unit": "ops", "success": True, "id": idx},
            {"weight": 1, "unit": "ops", "id": idx},
            {"id": idx},
            {"success": 1, "id": idx},
            {"success": "yes", "id": idx},
            {"success": [0], "id": idx},
        ][v]
    if kind == "dictFail":
        return True, [
            {"weight": 1, "unit": "ops", "success": False, "id": idx},
            {"success": 0, "id": idx},
            {"success": None, "id": idx},
            {"success": "", "id": idx},
            {"success": False, "error-type": "api", "id": idx},
            {"success": [], "id": idx},
        ][v]
    if kind == "nonDict":
        return True, [(1, "ops", idx), None, idx + 1000, [idx], f"s{idx}", 0.5][v]
    if kind == "sockTimeout":
        return False, [socket.timeout("timed out"), TimeoutError("t"), asyncio.TimeoutError(), socket.timeout(), TimeoutError(), socket.timeout("x")][v]
    if kind == "connError":
        return False, [
            elasticsearch.exceptions.ConnectionError(message="no route to host"),
            elasticsearch.ConnectionError(_Opaque("refused")),
            elastic_transport.ConnectionError(OSError(104, "reset"), errors=(OSError(104, "reset"),)),
            elastic_transport.TlsError("tls"),
            elasticsearch.exceptions.SSLError("", errors=(ValueError("a"), ValueError("b"))),
            elasticsearch.exceptions.ConnectionError("x", errors=(OSError("e"),)),
        ][v]
    if kind == "connTimeout":
        return False, [
            elasticsearch.exceptions.ConnectionTimeout(message="timed out"),
            elasticsearch.ConnectionTimeout(""),
            elastic_transport.ConnectionTimeout(_Opaque("t2")),
            elasticsearch.exceptions.ConnectionTimeout("t3", errors=(TimeoutError(),)),
            elasticsearch.ConnectionTimeout(TimeoutError("t4"), errors=(TimeoutError("t4"), OSError("o"))),
            elastic_transport.ConnectionTimeout("t5\nline two"),
        ][v]
    if kind == "api408":
        return False, [
            _api(elasticsearch.ApiError, "request_timeout", 408, v, idx),
            _api(elasticsearch.ApiError, "408", 408, v, idx),
            _api(elasticsearch.ApiError, "rt", 408, v, idx),
            _api(elasticsearch.exceptions.ApiError, "request_timeout", 408, v, idx),
            _api(elasticsearch.exceptions.UnsupportedProductError, "t", 408, v, idx),
            _api(elasticsearch.ApiError, "", 408, v, idx),
        ][v]
    if kind == "apiOther":
        return False, [
            _api(elasticsearch.NotFoundError, "index_not_found_exception", 404, v, idx),
            _api(elasticsearch.BadRequestError, "bad", 400, v, idx),
            _api(elasticsearch.ConflictError, "conflict", 409, v, idx),
            _api(elasticsearch.ApiError, "internal", [500, 502, 503, 504][idx % 4], v, idx),
            _api(elasticsearch.ApiError, "too_many_requests", 429, v, idx),
            _api(elasticsearch.AuthenticationException, "auth", 401, v, idx),
        ][v]
    if kind == "transportOther":
        errs = [(), (ValueError("v"),), (OSError(5, "io"), TypeError("t"))][idx % 3]
        return False, [
            elastic_transport.SerializationError("cannot serialize", errors=errs),
            elastic_transport.SniffingError(_Opaque("sniff"), errors=errs),
            elastic_transport.TransportError("generic", errors=errs),
            elasticsearch.exceptions.SerializationError(ValueError("s2"), errors=errs),
            elasticsearch.exceptions.TransportError("", errors=errs),
            elastic_transport.TransportError("g3 %s {}", errors=errs),
        ][v]
    if kind == "otherExc":
        return False, [
            KeyError("k"),
            exceptions.RallyError("rally"),
            ValueError("v"),
            ConnectionRefusedError("builtin connection error is not the ES one"),
            exceptions.RallyTaskAssertionError("assert"),
            OSError("os"),
        ][v]
    raise HarnessError("unknown kind " + kind)


# ---------------------------------------------------------------------------------------------
# running the real code
# ---------------------------------------------------------------------------------------------
_LOOP = None


def _loop():
    global _LOOP
    if _LOOP is None:
        import asyncio

        _LOOP = asyncio.new_event_loop()
    return _LOOP


def wire_params(pw):
    """case parameters -> the params dict handed to the runner (absent keys stay absent)"""
    params = {}
    names = {"until": "retry-until-success", "retries": "retries", "on_error": "retry-on-error", "wait": "retry-wait-period", "on_timeout": "retry-on-timeout"}
    for k, name in names.items():
        if pw.get(k) is not None:
            v = pw[k]
            if k == "wait":
                v = _wait_value(v)
            params[name] = v
    return params


def _wait_value(w):
    # ["i", 3] int, ["f", "0.5"] float
    return int(w[1]) if w[0] == "i" else float(w[1])


def model_args(pw, outs):
    a = {"ctor": bool(pw.get("ctor", False)), "outs": [o[0] for o in outs]}
    for k in ("until", "on_error", "on_timeout"):
        a[k] = None if pw.get(k) is None else bool(pw[k])
    a["retries"] = pw.get("retries")
    if pw.get("wait") is None:
        a["wait"] = None
    else:
        f = Fraction(_wait_value(pw["wait"]))
        a["wait"] = f"{f.numerator}/{f.denominator}"
    return a


def drive(call, outs):
    """runs `await call(delegate_or_none, es, params)` style thunk against the script.
    `call(script_fn)` must return a coroutine; script_fn is an async callable (es, params).
    -> (res, trace)   res as the model prints it, trace = ["c", "n/d", ...]"""
    import asyncio

    objs = [make_outcome(k, v, i) for i, (k, v) in enumerate(outs)]
    trace = []
    state = {"n": 0}

    async def script(*_args, **_kw):
        i = state["n"]
        state["n"] += 1
        trace.append("c")
        if i >= len(objs):
            raise ScriptExhausted()
        is_value, o = objs[i]
        if is_value:
            return o
        raise o

    async def fake_sleep(d, result=None):
        f = Fraction(d)
        trace.append(f"{f.numerator}/{f.denominator}")
        return result

    orig = asyncio.sleep
    asyncio.sleep = fake_sleep
    try:
        try:
            ret = _loop().run_until_complete(call(script))
            kind = "returned"
            payload = ret
        except ScriptExhausted:
            kind, payload = "pending", None
        except Exception as e:  # pylint: disable=broad-except
            kind, payload = "raised", e
    finally:
        asyncio.sleep = orig
    if kind == "pending":
        # the last "c" is the invocation that found the script empty
        if not trace or trace[-1] != "c":
            raise HarnessError("script exhaustion without a call")
        return ["pending"], trace[:-1], None
    idx = [i for i, (_, o) in enumerate(objs) if o is payload]
    n = trace.count("c")
    if kind == "returned":
        if n == 0 and payload is None:
            return ["fell"], trace, payload
        if n >= 1 and n <= len(objs) and objs[n - 1][1] is payload and objs[n - 1][0]:
            return ["returned", n - 1], trace, payload
        if idx and objs[idx[0]][0]:
            return ["returned", idx[0]], trace, payload
        return ["returned-foreign", repr(payload)[:80]], trace, payload
    if n >= 1 and n <= len(objs) and objs[n - 1][1] is payload and not objs[n - 1][0]:
        return ["raised", n - 1], trace, payload
    if idx and not objs[idx[0]][0]:
        return ["raised", idx[0]], trace, payload
    return ["raised-foreign", type(payload).__name__, str(payload)[:80]], trace, payload


def impl_retry(pw, outs):
    from esrally.driver import runner

    params = wire_params(pw)
    es = object()

    def call(script):
        async def delegate(e, p):
            if e is not es or p is not params:
                raise HarnessError("delegate called with foreign arguments")
            return await script()

        if pw.get("ctor") is None:
            r = runner.Retry(delegate)
        else:
            r = runner.Retry(delegate, retry_until_success=pw["ctor"])
        return r(es, params)

    res, trace, _ = drive(call, outs)
    return res, trace


# ---------------------------------------------------------------------------------------------
# direct oracle: the property statement, independent of the Lean model
# ---------------------------------------------------------------------------------------------
def oracle(pw, outs, ctor_default=False):
    """-> (res, trace) the property prescribes, or None when outside its domain (retries < 0)"""
    ctor = pw.get("ctor")
    ctor = ctor_default if ctor is None else ctor
    until = pw.get("until")
    until = ctor if until is None else until
    retries = pw.get("retries")
    retries = 0 if retries is None else retries
    if not until and retries < 0:
        return None
    max_attempts = None if until else retries + 1
    on_error = True if until else bool(pw.get("on_error") if pw.get("on_error") is not None else False)
    on_timeout = bool(pw.get("on_timeout") if pw.get("on_timeout") is not None else True)
    wait = Fraction(1, 2) if pw.get("wait") is None else Fraction(_wait_value(pw["wait"]))
    w = f"{wait.numerator}/{wait.denominator}"
    trace = []
    for i, (k, _) in enumerate(outs):
        trace.append("c")
        last = max_attempts is not None and i + 1 == max_attempts
        retryable = (k in TIMEOUTISH and on_timeout) or (k == "dictFail" and on_error)
        if last or not retryable:
            return [("returned" if k in VALUE_KINDS else "raised"), i], trace
        trace.append(w)
    return ["pending"], trace


def classify_failure(pw, outs, exp, obs):
    """input class of an oracle failure"""
    ncalls = obs[1].count("c") + (1 if obs[0] == ["pending"] else 0)
    on_timeout = pw.get("on_timeout") is None or bool(pw.get("on_timeout"))
    first = next((j for j, (k, _) in enumerate(outs) if k == "transportOther"), None)
    if first is not None and on_timeout and ncalls > first + 1 and exp[1].count("c") == first + 1:
        # the delegate was invoked again after an other transport error that should have propagated:
        # the defect fixed by 9eaa174 (trailing `except TransportError` swallowing it and retrying without a pause)
        return "other-transport-error-retried-without-wait"
    return "retry-semantics"


# ---------------------------------------------------------------------------------------------
# generators
# ---------------------------------------------------------------------------------------------
WAITS = [None, None, ["f", "0.5"], ["f", "0.01"], ["i", 2], ["f", "1.5"], ["i", 0], ["f", "0.1"], ["f", "0.0"], ["f", "3.25"]]


def gen_params(rng, n):
    pw = {}
    pw["ctor"] = rng.choice([None, False, False, True])
    pw["until"] = rng.choice([None, None, None, False, True])
    r = rng.random()
    if r < 0.15:
        pw["retries"] = None
    elif r < 0.19:
        pw["retries"] = -rng.randrange(1, 3)
    elif r < 0.5:
        pw["retries"] = max(0, n - 1 + rng.choice([-2, -1, 0, 0, 1]))
    else:
        pw["retries"] = rng.choice([0, 1, 2, 3, 5, 8, 12])
    pw["on_error"] = rng.choice([None, True, True, False])
    pw["on_timeout"] = rng.choice([None, None, True, False])
    pw["wait"] = rng.choice(WAITS)
    if rng.random() < 0.05:
        # truthy / falsy non-bool values
        pw["on_error"] = rng.choice([0, 1, "", "yes"])
    if rng.random() < 0.05:
        pw["on_timeout"] = rng.choice([0, 1, "", "no"])
    return pw


def gen_script(rng, n):
    mode = rng.random()
    if mode < 0.5:
        pool = ["dictFail", "sockTimeout", "connError", "connTimeout", "api408", "transportOther"] * 3 + KINDS
    elif mode < 0.8:
        pool = ["dictFail", "sockTimeout", "connError", "connTimeout", "api408"]
    else:
        pool = KINDS
    outs = [[rng.choice(pool), rng.randrange(NVARIANTS)] for _ in range(n)]
    if n and rng.random() < 0.5:
        outs[-1] = [rng.choice(["dictOk", "nonDict", "dictOk", "apiOther", "otherExc"]), rng.randrange(NVARIANTS)]
    return outs


def gen_random(ctx):
    rng = ctx.rng
    for _ in range(ctx.budget):
        n = rng.choice([0, 1, 1, 2, 2, 3, 3, 4, 5, 6, 7, 8, 10, 12])
        yield {"p": gen_params(rng, n), "outs": gen_script(rng, n)}


def param_grid(L):
    grid = []
    for until, on_timeout, on_error in itertools.product([False, True], [None, False], [None, True]):
        for retries in ([None, 1, L - 1, L] if not until else [None]):
            grid.append({"ctor": None, "until": until if until else None, "retries": retries, "on_error": on_error, "on_timeout": on_timeout, "wait": None})
    # constructor default and explicit override
    grid.append({"ctor": True, "until": None, "retries": 1, "on_error": None, "on_timeout": None, "wait": ["i", 2]})
    grid.append({"ctor": True, "until": False, "retries": L, "on_error": True, "on_timeout": True, "wait": ["f", "0.25"]})
    return grid


def gen_exhaustive(ctx):
    """every outcome sequence of length <= L over the 10 classes x the parameter grid
    (quick: L = 3 complete; thorough: L = 5 complete, sharded)"""
    if ctx.tier == "thorough":
        L = 5
        grid = param_grid(L)
        i = 0
        for n in range(0, L + 1):
            for seq in itertools.product(KINDS, repeat=n):
                i += 1
                if i % ctx.nshards != ctx.shard:
                    continue
                outs = [[k, (i + j) % NVARIANTS] for j, k in enumerate(seq)]
                for pw in grid:
                    yield {"p": pw, "outs": outs}
        ctx.notes["exhaustive"] = f"all outcome sequences of length <= {L} over {len(KINDS)} classes x {len(grid)} parameter combinations"
    else:
        L = 3
        grid = param_grid(L)
        seqs = [s for n in range(0, L + 1) for s in itertools.product(KINDS, repeat=n)]
        for i, seq in enumerate(seqs):
            if i % ctx.nshards != ctx.shard:
                continue
            outs = [[k, (i + j) % NVARIANTS] for j, k in enumerate(seq)]
            for pw in grid:
                yield {"p": pw, "outs": outs}
        ctx.notes["scope"] = f"all {len(seqs)} outcome sequences of length <= {L} x all {len(grid)} parameter combinations"


def _shape(pw):
    return [k for k in ("ctor", "until", "retries", "on_error", "on_timeout", "wait") if pw.get(k) is not None]


def run_retry(ctx, case):
    pw, outs = case["p"], case["outs"]
    m = ctx.model("retry", "run", model_args(pw, outs))
    mr = m["r"]
    res, trace = impl_retry(pw, outs)
    if [mr["res"], mr["trace"]] != [res, trace]:
        ctx.diff("Retry.__call__", {"res": mr["res"], "trace": mr["trace"]}, {"res": res, "trace": trace})
    exp = oracle(pw, outs)
    if exp is not None and [exp[0], exp[1]] != [res, trace]:
        ctx.fail(classify_failure(pw, outs, exp, (res, trace)), "Retry does not retry as the property prescribes", {"res": exp[0], "trace": exp[1]}, {"res": res, "trace": trace})
    ctx.count("len:%d" % len(outs))
    ctx.count("res:" + res[0])
    if exp is None:
        ctx.count("outside-domain(retries<0)")
    ctx.sig([sorted(m.get("tags", [])), res[0], _shape(pw)], nontrivial=trace.count("c") > 0)


# ---------------------------------------------------------------------------------------------
# which operation types are wrapped: AST table + documentation, checked behaviourally
# ---------------------------------------------------------------------------------------------
def documented_retryable(repo_root):
    """docs/track.rst: section title (operation type) -> is marked retryable"""
    lines = open(os.path.join(repo_root, "docs", "track.rst"), encoding="utf-8").read().split("\n")
    secs = []
    for i in range(1, len(lines)):
        if re.fullmatch(r"~{3,}", lines[i]) and lines[i - 1].strip() and len(lines[i]) >= len(lines[i - 1].strip()):
            secs.append((i - 1, lines[i - 1].strip()))
    doc = {}
    for k, (ln, title) in enumerate(secs):
        end = secs[k + 1][0] if k + 1 < len(secs) else len(lines)
        body = "\n".join(lines[ln:end])
        doc[title] = ":ref:`retryable <track_operations>`" in body
    return doc


def registration_table(repo_root):
    """AST of runner.register_default_runners -> {OperationType member: (inner class, wrapped, until_success)}"""
    path = os.path.join(repo_root, "esrally", "driver", "runner.py")
    tree = ast.parse(open(path, encoding="utf-8").read())
    fn = [n for n in tree.body if isinstance(n, ast.FunctionDef) and n.name == "register_default_runners"]
    if len(fn) != 1:
        raise ValueError("register_default_runners not found")
    table = {}
    for st in fn[0].body:
        if isinstance(st, ast.Expr) and isinstance(st.value, ast.Constant):
            continue  # docstring
        ok = isinstance(st, ast.Expr) and isinstance(st.value, ast.Call) and isinstance(st.value.func, ast.Name) and st.value.func.id == "register_runner"
        if not ok:
            raise ValueError(f"unrecognised statement in register_default_runners at line {st.lineno}")
        call = st.value
        if len(call.args) != 2:
            raise ValueError(f"register_runner call shape at line {st.lineno}")
        op = call.args[0]
        if not (isinstance(op, ast.Attribute) and isinstance(op.value, ast.Attribute) and op.value.attr == "OperationType"):
            raise ValueError(f"operation type expression at line {st.lineno}")
        member = op.attr
        r = call.args[1]
        if not (isinstance(r, ast.Call) and isinstance(r.func, ast.Name)):
            raise ValueError(f"runner expression at line {st.lineno}")
        if r.func.id == "Retry":
            if len(r.args) != 1 or not (isinstance(r.args[0], ast.Call) and isinstance(r.args[0].func, ast.Name)):
                raise ValueError(f"Retry(...) shape at line {st.lineno}")
            until = False
            for kw in r.keywords:
                if kw.arg == "retry_until_success" and isinstance(kw.value, ast.Constant) and isinstance(kw.value.value, bool):
                    until = kw.value.value
                else:
                    raise ValueError(f"Retry keyword at line {st.lineno}")
            row = (r.args[0].func.id, True, until)
        else:
            row = (r.func.id, False, False)
        if member in table:
            raise ValueError(f"{member} registered twice")
        table[member] = row
    return table


def wrapped_rows(repo_root):
    """rows (hyphenated op type, registered, wrapped, until_success, has doc section, documented retryable), sorted"""
    from esrally import track

    reg = registration_table(repo_root)
    doc = documented_retryable(repo_root)
    members = {m.name: m.to_hyphenated_string() for m in track.OperationType}
    for member in reg:
        if member not in members:
            raise ValueError(f"register_default_runners registers unknown OperationType.{member}")
    rows = []
    for name, hy in sorted(members.items(), key=lambda kv: kv[1]):
        inner, wrapped, until = reg.get(name, (None, False, False))
        rows.append({"op": hy, "registered": name in reg, "wrapped": wrapped, "until": until, "has_doc": hy in doc, "doc_retryable": bool(doc.get(hy, False))})
    return rows


def _b(x):
    return "true" if x else "false"


def translate(repo_root):
    rows = wrapped_rows(repo_root)
    out = [
        "/- GENERATED by harness/c16.py translate() from esrally/driver/runner.py (register_default_runners),",
        "   esrally/track (OperationType) and docs/track.rst — do not edit -/",
        "namespace Gen.RetryWrapped",
        "",
        "structure Row where",
        "  op : String",
        "  registered : Bool          -- register_default_runners registers a runner for it",
        "  wrapped : Bool             -- … as Retry(X(...), …)",
        "  untilSuccess : Bool        -- … with retry_until_success=True",
        "  hasDoc : Bool              -- docs/track.rst has a section for the operation type",
        "  docRetryable : Bool        -- … which says the operation is retryable",
        "deriving Repr, DecidableEq",
        "",
        "def table : List Row := [",
    ]
    body = []
    for r in rows:
        body.append(f'  ⟨"{r["op"]}", {_b(r["registered"])}, {_b(r["wrapped"])}, {_b(r["until"])}, {_b(r["has_doc"])}, {_b(r["doc_retryable"])}⟩')
    out.append(",\n".join(body))
    out += ["]", "", "end Gen.RetryWrapped", ""]
    text = "\n".join(out)
    path = os.path.join(LEAN_DIR, "RallyGen", "RetryWrapped.lean")
    os.makedirs(os.path.dirname(path), exist_ok=True)
    if not os.path.exists(path) or open(path, encoding="utf-8").read() != text:
        with open(path, "w", encoding="utf-8") as f:
            f.write(text)
    return {"rows": len(rows), "wrapped": sum(r["wrapped"] for r in rows), "until_success": [r["op"] for r in rows if r["until"]],
            "documented_retryable": sum(r["doc_retryable"] for r in rows)}


_REG = {}


def _registered():
    if not _REG:
        from esrally.driver import runner
        from harness.framework import REPO

        runner.register_default_runners()
        _REG["rows"] = {r["op"]: r for r in wrapped_rows(REPO)}
    return _REG["rows"]


REG_SCRIPTS = [
    ["connTimeout", "dictFail", "dictOk"],
    ["dictFail", "dictFail", "dictFail", "dictFail"],
    ["connError", "sockTimeout", "api408", "nonDict"],
    ["apiOther", "dictOk"],
    ["dictFail", "apiOther"],
    ["connError", "connError", "connError"],
    ["dictOk"],
    ["otherExc"],
    ["transportOther", "dictOk"],
    ["connError", "transportOther", "dictOk"],
    [],
]


def gen_registered(ctx):
    """every operation type of track.OperationType x fixed scripts x sampled parameters"""
    from esrally import track

    ops = sorted(m.to_hyphenated_string() for m in track.OperationType)
    rng = ctx.rng
    n = 0
    for i, op in enumerate(ops):
        if i % ctx.nshards != ctx.shard:
            continue
        for j, s in enumerate(REG_SCRIPTS):
            outs = [[k, (i + j + t) % NVARIANTS] for t, k in enumerate(s)]
            for pw in (
                {"retries": 3, "on_error": True},
                {"retries": 1, "on_error": True, "wait": ["f", "0.25"]},
                {},
                {"until": False, "retries": 2},
                {"until": True, "wait": ["i", 1]},
            ):
                yield {"op": op, "p": pw, "outs": outs}
                n += 1
        for _ in range(max(0, ctx.budget // max(1, len(ops) // ctx.nshards) - len(REG_SCRIPTS) * 5)):
            k = rng.choice([1, 2, 3, 4, 6])
            pw = gen_params(rng, k)
            pw["ctor"] = None
            yield {"op": op, "p": pw, "outs": gen_script(rng, k)}


def run_registered(ctx, case):
    from esrally.driver import runner
    from esrally import exceptions

    try:
        rows = _registered()
    except ValueError as e:
        # register_default_runners no longer has the shape the translator recognises: broken obligation, not a harness error
        ctx.diff("registration table", "recognised shape", str(e))
        ctx.sig(["table", "unrecognised"], nontrivial=False)
        return
    op, pw, outs = case["op"], case["p"], case["outs"]
    row = rows.get(op)
    if row is None:
        raise HarnessError(f"unknown operation type {op}")
    try:
        registered = runner.runner_for(op)
    except exceptions.RallyError:
        registered = None
    if (registered is not None) != row["registered"]:
        ctx.diff("registered", row["registered"], registered is not None)
    if registered is None:
        ctx.sig(["unregistered"], nontrivial=False)
        return
    inner = runner.unwrap(registered)
    cls = type(inner)
    params = wire_params(pw)
    default_es = object()
    es = {"default": default_es, "other": object()}

    def call(script):
        async def patched(self, e, p):
            if p is not params:
                raise HarnessError("innermost runner called with foreign params")
            return await script()

        async def go():
            orig = cls.__call__
            cls.__call__ = patched
            try:
                return await registered(es, params)
            finally:
                cls.__call__ = orig

        return go()

    res, trace, _ = drive(call, outs)
    a = model_args(dict(pw, ctor=False), outs)
    a["wrapped"] = row["wrapped"]
    a["reg_until"] = row["until"]
    m = ctx.model("retry", "registered", a)
    mr = m["r"]
    if [mr["res"], mr["trace"]] != [res, trace]:
        ctx.diff("registered runner " + op, {"res": mr["res"], "trace": mr["trace"], "row": row}, {"res": res, "trace": trace})
    # direct oracle: an operation the documentation calls retryable honours the retry parameters
    if row["doc_retryable"]:
        # the documentation of get-async-search states that it waits until success by default
        exp = oracle(dict(pw, ctor=None), outs, ctor_default=(op == "get-async-search"))
        if exp is not None and [exp[0], exp[1]] != [res, trace]:
            c = classify_failure(pw, outs, exp, (res, trace))
            if c == "retry-semantics":
                c = "documented-retryable-operation-not-retried"
            ctx.fail(c, f"operation type {op} is documented as retryable but does not retry as configured", {"res": exp[0], "trace": exp[1]}, {"res": res, "trace": trace})
    ctx.count("wrapped" if row["wrapped"] else "plain")
    ctx.sig([op, row["wrapped"], row["until"], res[0], len(trace)], nontrivial=bool(outs))


STREAMS = [
    Stream("random_scripts", gen_random, run_retry, quick=24000, thorough=1500000, shards=16),
    Stream("all_short_scripts", gen_exhaustive, run_retry, quick=24442, thorough=1, shards=16, exhaustive_thorough=True),
    Stream("registered_ops", gen_registered, run_registered, quick=4000, thorough=60000, shards=8),
]
