"""Deterministic pre-emption exploration (C04 Sampler.add vs. Sampler.samples; reusable, e.g. by C07).

Question answered: "operation A runs on thread 1; thread 2 may run operation B *completely* at any
moment in between — does the combined outcome satisfy P for every such moment?"

Instead of a stress test with real threads, A is run under `sys.settrace` and B is executed
synchronously, on the same thread, from inside the trace callback at pre-emption point k
(k = 0, 1, 2, … until A has no more points).  A pre-emption point is a trace event (function call,
new line and — with `granularity="opcode"` — every bytecode instruction) inside the call tree rooted
at a function selected by `root`.  This is the interleaving in which the OS suspends thread 1 exactly
there and thread 2 gets to run B to the end, provided B does not need a lock that A holds at that
moment: such points are skipped via `locks` (thread 2 would block there until A releases the lock,
which is the same interleaving as a later point).  CPython switches threads only between bytecode
instructions, so opcode granularity covers every switch the interpreter can make inside Python code.

Everything is deterministic: the number and order of points depend only on the code executed.
"""
import sys


class Point:
    __slots__ = ("k", "filename", "func", "lineno", "event", "lasti")

    def __init__(self, k, frame, event):
        self.k = k
        self.filename = frame.f_code.co_filename
        self.func = frame.f_code.co_qualname if hasattr(frame.f_code, "co_qualname") else frame.f_code.co_name
        self.lineno = frame.f_lineno
        self.event = event
        self.lasti = frame.f_lasti

    def where(self):
        return f"{self.func}:{self.lineno}@{self.lasti}({self.event})"


class Preemptor:
    """Runs `other()` once, at the k-th feasible pre-emption point inside call trees rooted at `root`.

    root(code) -> bool   selects the functions whose execution (including everything they call) may be pre-empted
    other()              the other thread's operation; its return value is kept in `.result`
    locks()              iterable of lock objects B needs; a point where one of them is held is not feasible
    select(occurrence)   restricts pre-emption to the n-th activation of a root function (None = any)
    """

    def __init__(self, root, other, k, locks=None, granularity="opcode", occurrence=None):
        self.root, self.other, self.k = root, other, k
        self.locks = locks
        self.opcode = granularity == "opcode"
        self.occurrence = occurrence
        self.depth = 0  # > 0 while inside a root activation
        self.activations = 0
        self.active_selected = False
        self.points = 0  # feasible points seen so far (in the selected activation)
        self.fired = None  # Point at which `other` ran
        self.result = None
        self._prev = None

    # -- trace plumbing ------------------------------------------------------------------------
    def _global(self, frame, event, arg):
        if event != "call":
            return None
        if self.depth == 0:
            if not self.root(frame.f_code):
                return None
            self.activations += 1
            self.active_selected = self.occurrence is None or self.activations - 1 == self.occurrence
            self.depth = 1
            return self._make_local(frame, True)
        self.depth += 1
        return self._make_local(frame, False)

    def _make_local(self, frame, is_root):
        if self.opcode:
            frame.f_trace_opcodes = True
        self._point(frame, "call")

        def local(fr, event, arg):
            if event == "return":
                self._point(fr, "return")
                self.depth -= 1
                return local
            if event in ("line", "opcode", "exception"):
                self._point(fr, event)
            return local

        return local

    def _point(self, frame, event):
        if self.fired is not None or not self.active_selected:
            return
        if self.locks is not None and any(l.locked() for l in self.locks()):
            return
        if self.points == self.k:
            self.fired = Point(self.k, frame, event)
            self.result = self.other()  # tracing is suspended while a trace function runs
        self.points += 1

    def __enter__(self):
        self._prev = sys.gettrace()
        sys.settrace(self._global)
        return self

    def __exit__(self, *a):
        sys.settrace(self._prev)
        return False


def explore(run, root, other_factory, locks_factory=None, granularity="opcode", occurrence=None, max_points=100000):
    """Enumerate every pre-emption point.

    run(state)                 runs operation A (and whatever surrounds it) — called once per point on a fresh state
    other_factory(state)       -> callable: operation B for this state
    locks_factory(state)       -> callable returning the locks B needs (optional)
    Yields (point | None, b_result, state, a_result_or_exception) for k = 0, 1, …; the last item has point None
    (B never ran: A alone), which also tells the caller how many points there were.
    `run` must build its own fresh state: it is called as run() -> (state, thunk) where thunk() executes A.
    """
    k = 0
    while k < max_points:
        state, thunk = run()
        p = Preemptor(root, other_factory(state), k, locks=None if locks_factory is None else locks_factory(state),
                      granularity=granularity, occurrence=occurrence)
        exc = None
        res = None
        with p:
            try:
                res = thunk()
            except BaseException as e:  # noqa: the caller decides what an exception of A means
                exc = e
        yield p.fired, p.result, state, (res, exc)
        if p.fired is None:
            return
        k += 1
    raise RuntimeError("pre-emption exploration did not terminate")
