#!/bin/bash
# usage: tools_neutraltest.sh [P...]  — run the quick check of each property against its behaviour-preserving rewrites
# (neutral/<P>/neutralN.diff, applied to a scratch worktree of /repo); every run must stay quiet (no VIOLATION line).
# Results: neutral/RESULTS.txt (one line per rewrite).
cd /verif
[ $# -gt 0 ] || set -- C01 C02 C03 C04 C05 C06 C07 C08 C09 C10 C11 C12 C13 C14 C15 C16 C17 C18 C19 C20
for P in "$@"; do
  for n in 1 2 3; do
    d=neutral/$P/neutral$n.diff
    [ -s $d ] || continue
    out=$(./tools_seedtest.sh $P $d 2>&1)
    v=$(echo "$out" | grep -c "^VIOLATION")
    line="$P-$n violations=$v $(echo "$out" | grep -E 'tier=quick|PATCH DOES NOT APPLY|HARNESS' | tail -1 | cut -c1-160)"
    ( flock 9; grep -v "^$P-$n " neutral/RESULTS.txt > neutral/.r.tmp 2>/dev/null; echo "$line" >> neutral/.r.tmp; sort neutral/.r.tmp > neutral/RESULTS.txt; rm -f neutral/.r.tmp ) 9>/tmp/neutral_results.lock
    echo "$line"
  done
done
