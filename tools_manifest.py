#!/usr/bin/env python3
"""Regenerates MANIFEST.json from the per-property table below (keeps it valid at all times)."""
import json, os

BASELINE = "cd /repo && /venv/bin/python -m pytest -ra -q -p no:cacheprovider --timeout=900 --continue-on-collection-errors"
here = os.path.dirname(os.path.abspath(__file__))
CLAIMED = {}
for fn in sorted(os.listdir(os.path.join(here, "claims"))):
    if fn.endswith(".json"):
        CLAIMED[fn[:-5]] = json.load(open(os.path.join(here, "claims", fn)))
ALL = [json.loads(l)["id"] for l in open(os.path.join(here, "properties.jsonl"))]
# only claim what is committed (a builder's work in progress has a claims file but no tracked harness yet)
import subprocess
tracked = set(subprocess.run(["git", "-C", here, "ls-files", "harness", "claims"], capture_output=True, text=True).stdout.split())
for pid in list(CLAIMED):
    if f"harness/{pid.lower()}.py" not in tracked:
        CLAIMED.pop(pid)
checks = []
for pid in ALL:
    c = CLAIMED.get(pid)
    if not c or c.get("not_applicable"):
        continue
    checks.append({
        "property_id": pid,
        "quick_cmd": f"./check {pid} --tier quick",
        "thorough_cmd": f"./check {pid} --tier thorough",
        "evidence_file": f"/verif/evidence/{pid}.json",
        "replay_cmd_template": f"./check {pid} --replay {{path}}",
        "engine": "lean-models+proofs / py-correspondence",
        "level_claimed": {"category": "proof", "text": c["text"], "design_ref": c.get("design_ref", "DESIGN.md section 7 " + pid)},
        "level_note": c["note"],
        "technique": c.get("technique", "Lean 4 theorems about a hand-written executable model + differential correspondence check against the real code"),
    })
na = [{"property_id": pid, "reason": (CLAIMED.get(pid) or {}).get("not_applicable") or "check not built yet in this round (planned, see DESIGN.md section 7); no claim is made"} for pid in ALL if not CLAIMED.get(pid) or CLAIMED[pid].get("not_applicable")]
m = {
    "version": 1,
    "setup_cmd": "./setup.sh",
    "hooks": {"guard": "ELASTIC_RALLY_VERIF", "enable": "no hook needed: the harness patches in-process (logging set-up, clocks, network) from its own process", "baseline_off_cmd": BASELINE, "source_commits": [], "add_only": True},
    "engines": [
        {"name": "lean-models+proofs", "path": "lean/", "serves_properties": [c["property_id"] for c in checks], "kind_free_text": "Lean 4 executable models (RallyModel), helper lemmas (RallyProofs), property theorems (RallyProps), line-protocol driver exe (Drivers)"},
        {"name": "py-correspondence", "path": "harness/", "serves_properties": [c["property_id"] for c in checks], "kind_free_text": "differential correspondence check model vs. real code + independent direct oracle per property, table translator"},
    ],
    "checks": checks,
    "not_applicable": na,
    "notes": "Every check = lake build of the property's theorems + #print axioms audit + correspondence streams. See DESIGN.md.",
}
json.dump(m, open(os.path.join(here, "MANIFEST.json"), "w"), indent=1)
print("claimed", len(checks), "unclaimed", len(na))
