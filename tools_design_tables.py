#!/venv/bin/python
"""Regenerates the machine-derived tables of DESIGN.md (sections 15–17) between their markers from
claims/*.json, lean/RallyProps/*.lean, known_findings.json, seeded/*/meta.json and evidence/*.json."""
import glob
import json
import os
import re
import sys

here = os.path.dirname(os.path.abspath(__file__))
sys.path.insert(0, here)
from harness import framework  # noqa: E402


def results():
    out = []
    props = {json.loads(l)["id"]: json.loads(l)["title"] for l in open(os.path.join(here, "properties.jsonl"))}
    for pid in sorted(props):
        cl = os.path.join(here, "claims", pid + ".json")
        if not os.path.exists(cl):
            out.append(f"### {pid} — {props[pid]}\n\nnot claimed (see MANIFEST.not_applicable).\n")
            continue
        c = json.load(open(cl))
        names = [n.split(".", 1)[1] for n in framework.theorem_names(pid)]
        ev = {}
        evp = os.path.join(here, "evidence", pid + ".json")
        if os.path.exists(evp):
            ev = json.load(open(evp))
        closure = [os.path.relpath(f, os.path.join(here, "lean")) for f in framework.import_closure(pid)]
        streams = ev.get("coverage", {}).get("streams", {})
        out.append(f"### {pid} — {props[pid]}\n")
        out.append(f"*Lean files:* {', '.join('`' + f + '`' for f in closure)}; *harness:* `harness/{pid.lower()}.py`.\n")
        out.append(f"*Theorems ({len(names)}, every one audited with `#print axioms` on each run):* " + ", ".join("`" + n + "`" for n in names) + ".\n")
        out.append("*What is claimed:* " + c["text"] + "\n")
        out.append("*Trusted / partial:* " + c["note"] + "\n")
        if streams:
            out.append("*Correspondence streams of the last committed evidence run (" + ev.get("tier", "?") + " tier, seed " + str(ev.get("seed")) + "):* " +
                       "; ".join(f"`{n}` {v['evaluations']} cases / {v['distinct_signatures']} signatures" for n, v in streams.items()) +
                       f". Obligations {ev['coverage'].get('discharged')}/{ev['coverage'].get('obligations')}.\n")
    return "\n".join(out)


def findings():
    ks = json.load(open(os.path.join(here, "known_findings.json")))
    out = ["| property | status | site | oracle class | what failed (witness) |", "|---|---|---|---|---|"]
    for k in ks:
        what = k["what"].replace("|", "\\|")
        out.append(f"| {k['property']} | {'fixed ' + k.get('commit', '') if k['status'] == 'fixed' else '**known finding**'} | `{k['site']}` | `{k['match'].get('class')}` | {what} |")
    return "\n".join(out)


def seeded():
    out = ["| id | property | breaks / needs (from the agent's notes) | demo without / with | suite at baseline | detected by `./check` (quick) |", "|---|---|---|---|---|---|"]
    for d in sorted(glob.glob(os.path.join(here, "seeded", "*"))):
        mp = os.path.join(d, "meta.json")
        if not os.path.exists(mp):
            continue
        m = json.load(open(mp))
        notes = ""
        np_ = os.path.join(d, "NOTES.md")
        sid = os.path.basename(d)
        n = sid.split("-")[1]
        if os.path.exists(np_):
            txt = open(np_).read()
            # first paragraph that talks about this change
            mm = re.search(r"(?is)change\s*" + n + r"\b(.{0,700})", txt)
            notes = re.sub(r"\s+", " ", mm.group(1) if mm else txt[:400])[:330].replace("|", "/")
        det = "yes" if m.get("detected") else ("**no** — " + m.get("detected_by_other_check", "missed")[:160] if not m.get("detected") else "")
        if m.get("check_exit") == 2:
            det = "harness error (exit 2)"
        out.append(f"| {sid} | {m['property']} | {notes} | {m.get('demo_exit_without_change')} / {m.get('demo_exit_with_change')} | {m.get('suite_at_baseline')} | {det}: {m.get('check_violation_lines', [''])[0][:70] if m.get('check_violation_lines') else ''} |")
    return "\n".join(out)


def put(s, key, text):
    b, e = f"<!-- BEGIN GENERATED: {key} -->", f"<!-- END GENERATED: {key} -->"
    if b not in s:
        return s + f"\n{b}\n{text}\n{e}\n"
    i, j = s.index(b) + len(b), s.index(e)
    return s[:i] + "\n" + text + "\n" + s[j:]


p = os.path.join(here, "DESIGN.md")
s = open(p).read()
s = put(s, "results", results())
s = put(s, "findings", findings())
s = put(s, "seeded", seeded())
open(p, "w").write(s)
print("DESIGN.md tables regenerated")
