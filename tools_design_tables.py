#!/venv/bin/python
"""Regenerates the machine-derived tables of DESIGN.md (sections 15–17) between their markers from
claims/*.json, lean/RallyProps/*.lean, known_findings.json, seeded/*/meta.json and evidence/*.json."""
import glob
import json
import os
import re
import sys

here = os.path.dirname(os.path.abspath(__file__))
sys.path.insert(0, here)
from harness import framework  # noqa: E402


def results():
    out = []
    props = {json.loads(l)["id"]: json.loads(l)["title"] for l in open(os.path.join(here, "properties.jsonl"))}
    for pid in sorted(props):
        cl = os.path.join(here, "claims", pid + ".json")
        if not os.path.exists(cl):
            out.append(f"### {pid} — {props[pid]}\n\nnot claimed (see MANIFEST.not_applicable).\n")
            continue
        c = json.load(open(cl))
        names = [n.split(".", 1)[1] for n in framework.theorem_names(pid)]
        ev = {}
        evp = os.path.join(here, "evidence", pid + ".json")
        if os.path.exists(evp):
            ev = json.load(open(evp))
        closure = [os.path.relpath(f, os.path.join(here, "lean")) for f in framework.import_closure(pid)]
        streams = ev.get("coverage", {}).get("streams", {})
        out.append(f"### {pid} — {props[pid]}\n")
        out.append(f"*Lean files:* {', '.join('`' + f + '`' for f in closure)}; *harness:* `harness/{pid.lower()}.py`.\n")
        out.append(f"*Theorems ({len(names)}, every one audited with `#print axioms` on each run):* " + ", ".join("`" + n + "`" for n in names) + ".\n")
        out.append("*What is claimed:* " + c["text"] + "\n")
        out.append("*Trusted / partial:* " + c["note"] + "\n")
        if streams:
            out.append("*Correspondence streams of the last committed evidence run (" + ev.get("tier", "?") + " tier, seed " + str(ev.get("seed")) + "):* " +
                       "; ".join(f"`{n}` {v['evaluations']} cases / {v['distinct_signatures']} signatures" for n, v in streams.items()) +
                       f". Obligations {ev['coverage'].get('discharged')}/{ev['coverage'].get('obligations')}.\n")
    return "\n".join(out)


def findings():
    ks = json.load(open(os.path.join(here, "known_findings.json")))
    out = ["| property | status | site | oracle class | what failed (witness) |", "|---|---|---|---|---|"]
    for k in ks:
        what = k["what"].replace("|", "\\|")
        out.append(f"| {k['property']} | {'fixed ' + k.get('commit', '') if k['status'] == 'fixed' else '**known finding**'} | `{k['site']}` | `{k['match'].get('class')}` | {what} |")
    return "\n".join(out)


def seeded():
    hist = {}
    hp = os.path.join(here, "seeded", "HISTORY.json")
    if os.path.exists(hp):
        hist = json.load(open(hp))
    out = ["| id | round | code changed (file: enclosing definitions of the hunks) | demo without / with | suite at baseline | first run of `./check` | now (`./check --tier quick`, first VIOLATION line) |",
           "|---|---|---|---|---|---|---|"]
    n_first = n_now = n = 0
    for d in sorted(glob.glob(os.path.join(here, "seeded", "C*-*"))):
        mp = os.path.join(d, "meta.json")
        if not os.path.exists(mp):
            continue
        m = json.load(open(mp))
        sid = os.path.basename(d)
        sites = {}
        cur = None
        for line in open(os.path.join(d, "patch.diff"), errors="replace"):
            if line.startswith("+++ b/"):
                cur = line[6:].strip()
                sites.setdefault(cur, [])
            elif line.startswith("@@") and cur:
                ctxt = line.split("@@")[-1].strip()
                mm = re.match(r"(?:async )?(?:def|class) (\w+)", ctxt)
                if mm and mm.group(1) not in sites[cur]:
                    sites[cur].append(mm.group(1))
        site = "; ".join(f"`{f.replace('esrally/', '')}`: {', '.join(v) if v else 'module level'}" for f, v in sites.items())
        h = hist.get(sid, {})
        first = "detected" if h.get("first_run_detected", True) else "**missed**" + (" — " + h["first_run_note"] if h.get("first_run_note") else "")
        if m.get("check_exit") == 2:
            now = "harness error (exit 2)"
        elif m.get("detected"):
            now = "detected: " + (m.get("check_violation_lines") or [""])[0].replace("VIOLATION property=" + m["property"] + " replay=replays/", "")[:60]
        else:
            now = "**missed**" + (" — " + m["detected_by_other_check"][:200] if m.get("detected_by_other_check") else "")
        if m.get("superseded"):
            now += " — " + m["superseded"][:260]
        n += 1
        n_first += bool(h.get("first_run_detected", True))
        n_now += bool(m.get("detected"))
        out.append(f"| {sid} | {m.get('round', 1)} | {site} | {m.get('demo_exit_without_change')} / {m.get('demo_exit_with_change')} | {m.get('suite_at_baseline')} | {first} | {now} |")
    out.append("")
    out.append(f"{n} confirmed seeded changes; {n_first} detected by the check as it stood when the change arrived, {n_now} detected by the current checks.")
    return "\n".join(out)


def put(s, key, text):
    b, e = f"<!-- BEGIN GENERATED: {key} -->", f"<!-- END GENERATED: {key} -->"
    if b not in s:
        return s + f"\n{b}\n{text}\n{e}\n"
    i, j = s.index(b) + len(b), s.index(e)
    return s[:i] + "\n" + text + "\n" + s[j:]


p = os.path.join(here, "DESIGN.md")
s = open(p).read()
s = put(s, "results", results())
s = put(s, "findings", findings())
s = put(s, "seeded", seeded())
open(p, "w").write(s)
print("DESIGN.md tables regenerated")
